// Package theory is the independent music-theory oracle: interval sizes,
// key signatures, scales, circle of fifths and the conventional chord table.
// Everything is computed from textbook definitions with integer arithmetic;
// nothing is imported from crd.
package theory

import (
	"fmt"
	"sort"
	"strconv"
	"strings"
)

// ---------------------------------------------------------------- intervals

type Quality int

const (
	Major Quality = iota
	Minor
	Perfect
	Augmented
	Diminished
	DoublyAugmented
	DoublyDiminished
)

var Qualities = []Quality{Major, Minor, Perfect, Augmented, Diminished, DoublyAugmented, DoublyDiminished}

func (q Quality) String() string {
	return [...]string{"Major", "Minor", "Perfect", "Augmented", "Diminished", "DoublyAugmented", "DoublyDiminished"}[q]
}

// Interval is a number >= 1 with a quality.
type Interval struct {
	N int
	Q Quality
}

func (i Interval) String() string { return fmt.Sprintf("%s%d", i.Q, i.N) }

var majorScaleSize = [8]int{0, 0, 2, 4, 5, 7, 9, 11} // index = simple number 1..7

// perfectClass reports whether the number belongs to the 1,4,5 classes.
func perfectClass(n int) bool {
	s := (n-1)%7 + 1
	return s == 1 || s == 4 || s == 5
}

// Exists tells whether the quality exists for the number.
func Exists(n int, q Quality) bool {
	if n < 1 {
		return false
	}
	switch q {
	case Major, Minor:
		return !perfectClass(n)
	case Perfect:
		return perfectClass(n)
	default:
		return true
	}
}

// Size returns the size in semitones exactly as property C15 states it: the
// major-scale size of the simple interval plus 12 per octave, minus 1 for
// minor, plus 1 for augmented, minus 1 (from perfect) or 2 (from major) for
// diminished, one more for doubly.
func Size(n int, q Quality) (int, bool) {
	if !Exists(n, q) {
		return 0, false
	}
	s := (n-1)%7 + 1
	oct := (n - 1) / 7
	base := majorScaleSize[s] + 12*oct
	switch q {
	case Major, Perfect:
		return base, true
	case Minor:
		return base - 1, true
	case Augmented:
		return base + 1, true
	case DoublyAugmented:
		return base + 2, true
	case Diminished:
		if perfectClass(n) {
			return base - 1, true
		}
		return base - 2, true
	case DoublyDiminished:
		if perfectClass(n) {
			return base - 2, true
		}
		return base - 3, true
	}
	return 0, false
}

// Notation renders the interval in crd's degree notation: accidental marks
// before the number (b = minor-or-diminished-from-perfect, bb = diminished,
// bbb = doubly diminished, # = augmented, ## = doubly augmented).
// This is documented notation (attribute.yml, README); it is data, not code.
func (i Interval) Notation() string {
	var m string
	switch i.Q {
	case Major, Perfect:
		m = ""
	case Minor:
		m = "b"
	case Augmented:
		m = "#"
	case DoublyAugmented:
		m = "##"
	case Diminished:
		m = "bb"
	case DoublyDiminished:
		m = "bbb"
	}
	return m + strconv.Itoa(i.N)
}

// ParseNotation reads "<marks><number>" (canonical, marks first). A single b
// on a perfect-class number means diminished (the notation's "minor or
// diminished" coercion), bb always means diminished.
func ParseNotation(s string) (Interval, error) {
	i := 0
	for i < len(s) && (s[i] == 'b' || s[i] == '#') {
		i++
	}
	marks, num := s[:i], s[i:]
	if num == "" {
		return Interval{}, fmt.Errorf("no number in %q", s)
	}
	for _, c := range num {
		if c < '0' || c > '9' {
			return Interval{}, fmt.Errorf("bad number in %q", s)
		}
	}
	n, err := strconv.Atoi(num)
	if err != nil || n < 1 {
		return Interval{}, fmt.Errorf("bad number in %q", s)
	}
	var q Quality
	switch marks {
	case "":
		if perfectClass(n) {
			q = Perfect
		} else {
			q = Major
		}
	case "b":
		if perfectClass(n) {
			q = Diminished
		} else {
			q = Minor
		}
	case "bb":
		q = Diminished
	case "bbb":
		q = DoublyDiminished
	case "#":
		q = Augmented
	case "##":
		q = DoublyAugmented
	default:
		return Interval{}, fmt.Errorf("bad marks in %q", s)
	}
	return Interval{N: n, Q: q}, nil
}

// AllIntervals lists every existing interval with number 1..maxN.
func AllIntervals(maxN int) []Interval {
	var r []Interval
	for n := 1; n <= maxN; n++ {
		for _, q := range Qualities {
			if Exists(n, q) {
				r = append(r, Interval{n, q})
			}
		}
	}
	return r
}

// ---------------------------------------------------------------- notes

var Letters = []byte("CDEFGAB")

var letterPC = map[byte]int{'C': 0, 'D': 2, 'E': 4, 'F': 5, 'G': 7, 'A': 9, 'B': 11}

func LetterIndex(l byte) int { return strings.IndexByte("CDEFGAB", l) }

// Note is a letter with an accidental offset (-2..+2).
type Note struct {
	Letter byte
	Acc    int
}

func (n Note) String() string {
	s := string(n.Letter)
	switch {
	case n.Acc > 0:
		s += strings.Repeat("#", n.Acc)
	case n.Acc < 0:
		s += strings.Repeat("b", -n.Acc)
	}
	return s
}

// Pitch is the unreduced offset from C (Cb = -1, B# = 12).
func (n Note) Pitch() int { return letterPC[n.Letter] + n.Acc }

// PC is the pitch class 0..11.
func (n Note) PC() int { return ((n.Pitch() % 12) + 12) % 12 }

// ParseNote reads a letter with optional #/b marks.
func ParseNote(s string) (Note, error) {
	if len(s) == 0 || LetterIndex(s[0]) < 0 {
		return Note{}, fmt.Errorf("bad note %q", s)
	}
	n := Note{Letter: s[0]}
	for _, c := range s[1:] {
		switch c {
		case '#':
			n.Acc++
		case 'b':
			n.Acc--
		default:
			return Note{}, fmt.Errorf("bad note %q", s)
		}
	}
	return n, nil
}

// AllSpellings returns the 21 spellings letter x {natural, #, b}.
func AllSpellings() []Note {
	var r []Note
	for _, l := range Letters {
		for _, a := range []int{0, 1, -1} {
			r = append(r, Note{l, a})
		}
	}
	return r
}

// ---------------------------------------------------------------- keys

type Key struct {
	Tonic Note
	Minor bool
}

func (k Key) String() string {
	s := k.Tonic.String()
	if k.Minor {
		s += "m"
	}
	return s
}

func ParseKey(s string) (Key, error) {
	minor := strings.HasSuffix(s, "m")
	t := strings.TrimSuffix(s, "m")
	n, err := ParseNote(t)
	if err != nil || n.Acc < -1 || n.Acc > 1 {
		return Key{}, fmt.Errorf("bad key %q", s)
	}
	return Key{Tonic: n, Minor: minor}, nil
}

const fifths = "FCGDAEB"

// Signature returns the signed number of sharps (+) or flats (-) of the key:
// position of the tonic letter in F-C-G-D-A-E-B minus 1, plus 7 per sharp,
// minus 7 per flat, minus 3 for minor.
func (k Key) Signature() int {
	s := strings.IndexByte(fifths, k.Tonic.Letter) - 1 + 7*k.Tonic.Acc
	if k.Minor {
		s -= 3
	}
	return s
}

// Supported lists the 28 keys property C13 names (|signature| <= 7, minus G#m.. etc.:
// exactly the fifteen major keys from seven flats to seven sharps and the
// thirteen minor keys Am Em Bm F#m C#m G#m D#m Dm Gm Cm Fm Bbm Ebm).
func Supported() []Key {
	names := []string{
		"Cb", "Gb", "Db", "Ab", "Eb", "Bb", "F", "C", "G", "D", "A", "E", "B", "F#", "C#",
		"Am", "Em", "Bm", "F#m", "C#m", "G#m", "D#m", "Dm", "Gm", "Cm", "Fm", "Bbm", "Ebm",
	}
	r := make([]Key, len(names))
	for i, n := range names {
		k, err := ParseKey(n)
		if err != nil {
			panic(err)
		}
		r[i] = k
	}
	return r
}

// AllKeySpellings returns the 42 strings [A-G][#b]?m?.
func AllKeySpellings() []string {
	var r []string
	for _, l := range Letters {
		for _, a := range []string{"", "#", "b"} {
			for _, m := range []string{"", "m"} {
				r = append(r, string(l)+a+m)
			}
		}
	}
	return r
}

func IsSupported(s string) bool {
	for _, k := range Supported() {
		if k.String() == s {
			return true
		}
	}
	return false
}

// Scale returns the seven notes of the key computed from its signature: the
// letters from the tonic, the first n of FCGDAEB sharpened or the first n of
// BEADGCF flattened.
func (k Key) Scale() [7]Note {
	sig := k.Signature()
	alt := map[byte]int{}
	if sig > 0 {
		for i := 0; i < sig && i < 7; i++ {
			alt[fifths[i]] = 1
		}
	} else {
		for i := 0; i < -sig && i < 7; i++ {
			alt[fifths[6-i]] = -1
		}
	}
	var r [7]Note
	li := LetterIndex(k.Tonic.Letter)
	for i := 0; i < 7; i++ {
		l := Letters[(li+i)%7]
		r[i] = Note{l, alt[l]}
	}
	return r
}

var majorSteps = [7]int{2, 2, 1, 2, 2, 2, 1}
var minorSteps = [7]int{2, 1, 2, 2, 1, 2, 2}

// Steps returns the step pattern of the mode.
func (k Key) Steps() [7]int {
	if k.Minor {
		return minorSteps
	}
	return majorSteps
}

// SelfTest cross-checks the computed scales against the step patterns (trusted
// base sanity; run at start-up of every check).
func SelfTest() error {
	for _, k := range Supported() {
		sc := k.Scale()
		if sc[0] != k.Tonic {
			return fmt.Errorf("theory self-test: scale of %v starts on %v", k, sc[0])
		}
		st := k.Steps()
		for i := 0; i < 7; i++ {
			a, b := sc[i], sc[(i+1)%7]
			d := ((b.Pitch()-a.Pitch())%12 + 12) % 12
			if d != st[i] {
				return fmt.Errorf("theory self-test: %v step %d is %d", k, i, d)
			}
		}
	}
	// sizes: a few anchors from any textbook
	anchors := map[Interval]int{
		{1, Perfect}: 0, {2, Minor}: 1, {2, Major}: 2, {3, Minor}: 3, {3, Major}: 4, {4, Perfect}: 5,
		{4, Augmented}: 6, {5, Diminished}: 6, {5, Perfect}: 7, {6, Minor}: 8, {6, Major}: 9,
		{7, Minor}: 10, {7, Major}: 11, {8, Perfect}: 12, {9, Major}: 14, {7, Diminished}: 9,
		{11, Perfect}: 17, {13, Major}: 21, {1, Diminished}: -1, {2, DoublyDiminished}: -1,
	}
	for i, w := range anchors {
		if g, ok := Size(i.N, i.Q); !ok || g != w {
			return fmt.Errorf("theory self-test: size(%v)=%d want %d", i, g, w)
		}
	}
	return nil
}

// TonicOffset is the pitch of the tonic above (or below, for Cb) middle C: the
// octave-4 pitch of the tonic name minus 60.
func (k Key) TonicOffset() int { return k.Tonic.Pitch() }

// ---------------------------------------------------------------- circle

// Convert applies one circle-of-fifths operation (d, s, p, r) to a (pitch
// class, minor) pair.
func ConvertPC(pc int, minor bool, op byte) (int, bool, error) {
	switch op {
	case 'd':
		return (pc + 7) % 12, minor, nil
	case 's':
		return (pc + 5) % 12, minor, nil
	case 'p':
		return pc, !minor, nil
	case 'r':
		if minor {
			return (pc + 3) % 12, false, nil
		}
		return (pc + 9) % 12, true, nil
	}
	return 0, false, fmt.Errorf("unknown operation %q", op)
}

// ExtraSupported holds keys beyond the 28 that the tool under observation reports as supported
// (property C13 says "at least"); set once at the start of a check, before any concurrency.
var ExtraSupported []Key

// SpellingsOf returns the sorted supported spellings of (pc, mode).
func SpellingsOf(pc int, minor bool) []string {
	var r []string
	for _, k := range append(Supported(), ExtraSupported...) {
		if k.Tonic.PC() == pc && k.Minor == minor {
			r = append(r, k.String())
		}
	}
	sort.Strings(r)
	return r
}

// Chain folds the operations over the key and returns the expected result set.
func Chain(k Key, chain string) ([]string, error) {
	pc, minor := k.Tonic.PC(), k.Minor
	for i := 0; i < len(chain); i++ {
		var err error
		pc, minor, err = ConvertPC(pc, minor, chain[i])
		if err != nil {
			return nil, err
		}
	}
	return SpellingsOf(pc, minor), nil
}

// ---------------------------------------------------------------- chords

// ChordTable is the conventional meaning of every built-in chord symbol
// (semitones above the root, ascending as listed in property C16).
var ChordTable = map[string][]int{
	"":      {0, 4, 7},
	"m":     {0, 3, 7},
	"dim":   {0, 3, 6},
	"aug":   {0, 4, 8},
	"7":     {0, 4, 7, 10},
	"M7":    {0, 4, 7, 11},
	"maj7":  {0, 4, 7, 11},
	"m7":    {0, 3, 7, 10},
	"mM7":   {0, 3, 7, 11},
	"m7b5":  {0, 3, 6, 10},
	"dim7":  {0, 3, 6, 9},
	"augM7": {0, 4, 8, 11},
	"9":     {0, 4, 7, 10, 14},
	"m9":    {0, 3, 7, 10, 14},
	"M9":    {0, 4, 7, 11, 14},
	"maj9":  {0, 4, 7, 11, 14},
	"mM9":   {0, 3, 7, 11, 14},
	"sus4":  {0, 5, 7},
	"7sus4": {0, 5, 7, 10},
	"6":     {0, 4, 7, 9},
	"m6":    {0, 3, 7, 9},
	"add9":  {0, 4, 7, 14},
	"sus2":  {0, 2, 7},
}

// ChordNames maps the long names of the built-in dictionary to their display
// symbols. The pairing is part of the user-visible dictionary (crd info chord
// list); it is cross-checked against that listing at run time by C16.
var ChordNames = map[string]string{
	"MajorTriad":             "",
	"MinorTriad":             "m",
	"DiminishedTriad":        "dim",
	"AugmentedTriad":         "aug",
	"DominantSeventh":        "7",
	"MajorSeventh":           "M7",
	"MajorSeventhAlias1":     "maj7",
	"MinorSeventh":           "m7",
	"MinorMajorSeventh":      "mM7",
	"HalfDiminishedSeventh":  "m7b5",
	"DiminishedSeventh":      "dim7",
	"AugmentedMajorSeventh":  "augM7",
	"DominantNinth":          "9",
	"MinorMajorNinth":        "mM9",
	"MinorNinth":             "m9",
	"MajorNinth":             "M9",
	"MajorNinthAlias1":       "maj9",
	"SuspendedFourth":        "sus4",
	"SeventhSuspendedFourth": "7sus4",
	"Sixth":                  "6",
	"MinorSixth":             "m6",
	"AddedNinth":             "add9",
	"SuspendSecond":          "sus2",
}

// SymbolKeys returns all lookup keys (names and displays) sorted.
func SymbolKeys() []string {
	var r []string
	for n, d := range ChordNames {
		r = append(r, n, d)
	}
	sort.Strings(r)
	return r
}

// ChordSemis returns the conventional semitone list for a name or display.
func ChordSemis(sym string) ([]int, bool) {
	if d, ok := ChordNames[sym]; ok {
		sym = d
	}
	v, ok := ChordTable[sym]
	return v, ok
}

// AttributeInterval parses an English attribute name such as "Minor7" or
// "Augmented11" into the interval it denotes.
func AttributeInterval(name string) (Interval, bool) {
	for _, p := range []struct {
		prefix string
		q      Quality
	}{
		{"DoublyAugmented", DoublyAugmented}, {"DoublyDiminished", DoublyDiminished},
		{"Major", Major}, {"Minor", Minor}, {"Perfect", Perfect}, {"Augmented", Augmented}, {"Diminished", Diminished},
	} {
		if strings.HasPrefix(name, p.prefix) {
			n, err := strconv.Atoi(name[len(p.prefix):])
			if err != nil || n < 1 || strconv.Itoa(n) != name[len(p.prefix):] {
				return Interval{}, false
			}
			return Interval{N: n, Q: p.q}, true
		}
	}
	return Interval{}, false
}
