// Package grammar holds the reference side of property C04: a rule extractor
// for the yacc grammar file, an Earley recogniser over token kinds, the
// reference tokenizer written from the documented tokenisation, and sentence
// enumeration. It shares no code with crd's lexer or the goyacc tables.
package grammar

import (
	"fmt"
	"os"
	"sort"
	"strings"
	"unicode"
	"unicode/utf8"
)

// ------------------------------------------------------------------ grammar

type Grammar struct {
	Start     string
	Terminals map[string]bool
	Rules     map[string][][]string // lhs -> alternatives
	Order     []string
}

// LoadYacc extracts tokens and rules from a yacc file.
func LoadYacc(path string) (*Grammar, error) {
	b, err := os.ReadFile(path)
	if err != nil {
		return nil, err
	}
	return ParseYacc(string(b))
}

func ParseYacc(src string) (*Grammar, error) {
	g := &Grammar{Terminals: map[string]bool{}, Rules: map[string][][]string{}}
	idx := strings.Index(src, "\n%%")
	if idx < 0 {
		return nil, fmt.Errorf("no %%%% separator")
	}
	decl, rules := src[:idx], src[idx+3:]
	if j := strings.Index(rules, "\n%%"); j >= 0 {
		rules = rules[:j]
	}
	// declarations: %token <type> NAME...
	for _, line := range strings.Split(decl, "\n") {
		f := strings.Fields(line)
		if len(f) >= 2 && f[0] == "%token" {
			for _, n := range f[1:] {
				if strings.HasPrefix(n, "<") {
					continue
				}
				g.Terminals[n] = true
			}
		}
	}
	// rules: scan identifiers, ':', '|', ';', skip {actions}, comments, quoted literals
	var toks []string
	i := 0
	for i < len(rules) {
		c := rules[i]
		switch {
		case c == '{':
			depth := 0
			for i < len(rules) {
				switch rules[i] {
				case '{':
					depth++
				case '}':
					depth--
				case '"', '`':
					q := rules[i]
					i++
					for i < len(rules) && rules[i] != q {
						if rules[i] == '\\' && q == '"' {
							i++
						}
						i++
					}
				case '\'':
					i++
					for i < len(rules) && rules[i] != '\'' {
						if rules[i] == '\\' {
							i++
						}
						i++
					}
				case '/':
					if i+1 < len(rules) && rules[i+1] == '/' {
						for i < len(rules) && rules[i] != '\n' {
							i++
						}
						continue
					}
					if i+1 < len(rules) && rules[i+1] == '*' {
						j := strings.Index(rules[i+2:], "*/")
						if j < 0 {
							return nil, fmt.Errorf("unterminated comment in action")
						}
						i += j + 3
					}
				}
				i++
				if depth == 0 {
					break
				}
			}
			if depth != 0 {
				return nil, fmt.Errorf("unbalanced action braces")
			}
		case c == '/' && i+1 < len(rules) && rules[i+1] == '*':
			j := strings.Index(rules[i+2:], "*/")
			if j < 0 {
				return nil, fmt.Errorf("unterminated comment")
			}
			i += j + 4
		case c == '/' && i+1 < len(rules) && rules[i+1] == '/':
			for i < len(rules) && rules[i] != '\n' {
				i++
			}
		case c == ':' || c == '|' || c == ';':
			toks = append(toks, string(c))
			i++
		case c == '\'':
			j := i + 1
			for j < len(rules) && rules[j] != '\'' {
				j++
			}
			toks = append(toks, rules[i:j+1])
			g.Terminals[rules[i:j+1]] = true
			i = j + 1
		case c == '%':
			// %prec NAME etc.: skip the directive word and its argument
			j := i
			for j < len(rules) && !unicode.IsSpace(rune(rules[j])) {
				j++
			}
			word := rules[i:j]
			i = j
			if word == "%prec" {
				for i < len(rules) && unicode.IsSpace(rune(rules[i])) {
					i++
				}
				for i < len(rules) && !unicode.IsSpace(rune(rules[i])) {
					i++
				}
			}
		case unicode.IsLetter(rune(c)) || c == '_':
			j := i
			for j < len(rules) && (unicode.IsLetter(rune(rules[j])) || unicode.IsDigit(rune(rules[j])) || rules[j] == '_') {
				j++
			}
			toks = append(toks, rules[i:j])
			i = j
		default:
			i++
		}
	}
	// group: IDENT ':' alt ('|' alt)* [';']
	k := 0
	for k < len(toks) {
		if k+1 >= len(toks) || toks[k+1] != ":" {
			return nil, fmt.Errorf("rule expected at token %d (%q)", k, toks[k])
		}
		lhs := toks[k]
		k += 2
		var alts [][]string
		cur := []string{}
		for k < len(toks) {
			if toks[k] == "|" {
				alts = append(alts, cur)
				cur = []string{}
				k++
				continue
			}
			if toks[k] == ";" {
				k++
				break
			}
			if k+1 < len(toks) && toks[k+1] == ":" {
				break
			}
			cur = append(cur, toks[k])
			k++
		}
		alts = append(alts, cur)
		if _, ok := g.Rules[lhs]; !ok {
			g.Order = append(g.Order, lhs)
		}
		g.Rules[lhs] = append(g.Rules[lhs], alts...)
		if g.Start == "" {
			g.Start = lhs
		}
	}
	for _, alts := range g.Rules {
		for _, a := range alts {
			for _, s := range a {
				if _, nt := g.Rules[s]; !nt && !g.Terminals[s] {
					return nil, fmt.Errorf("symbol %q is neither a rule nor a declared token", s)
				}
			}
		}
	}
	if g.Start == "" {
		return nil, fmt.Errorf("no rules")
	}
	return g, nil
}

// ------------------------------------------------------------------ Earley

type item struct {
	lhs    string
	alt    int
	dot    int
	origin int
}

// Accepts reports whether the sequence of terminal names is a sentence.
func (g *Grammar) Accepts(kinds []string) bool {
	n := len(kinds)
	sets := make([]map[item]bool, n+1)
	lists := make([][]item, n+1)
	add := func(k int, it item) {
		if sets[k] == nil {
			sets[k] = map[item]bool{}
		}
		if !sets[k][it] {
			sets[k][it] = true
			lists[k] = append(lists[k], it)
		}
	}
	for a := range g.Rules[g.Start] {
		add(0, item{g.Start, a, 0, 0})
	}
	for k := 0; k <= n; k++ {
		for i := 0; i < len(lists[k]); i++ {
			it := lists[k][i]
			rhs := g.Rules[it.lhs][it.alt]
			if it.dot < len(rhs) {
				sym := rhs[it.dot]
				if alts, nt := g.Rules[sym]; nt {
					for a := range alts {
						add(k, item{sym, a, 0, k})
					}
					// nullable completion (Aycock-Horspool): if sym already completed at k with origin k
					for _, c := range lists[k] {
						if c.lhs == sym && c.origin == k && c.dot == len(g.Rules[c.lhs][c.alt]) {
							add(k, item{it.lhs, it.alt, it.dot + 1, it.origin})
						}
					}
				} else if k < n && kinds[k] == sym {
					add(k+1, item{it.lhs, it.alt, it.dot + 1, it.origin})
				}
			} else {
				for _, p := range lists[it.origin] {
					prhs := g.Rules[p.lhs][p.alt]
					if p.dot < len(prhs) && prhs[p.dot] == it.lhs {
						add(k, item{p.lhs, p.alt, p.dot + 1, p.origin})
					}
				}
			}
		}
	}
	for _, it := range lists[n] {
		if it.lhs == g.Start && it.origin == 0 && it.dot == len(g.Rules[it.lhs][it.alt]) {
			return true
		}
	}
	return false
}

// Sentences enumerates all sentences (terminal sequences) with at most maxLen
// tokens, up to limit sentences (0 = no limit). Leftmost derivation with
// pruning by the minimal length of the remaining sentential form.
func (g *Grammar) Sentences(maxLen, limit int) [][]string {
	minLen := g.minLens()
	var out [][]string
	seen := map[string]bool{}
	var rec func(prefix []string, rest []string)
	rec = func(prefix []string, rest []string) {
		if limit > 0 && len(out) >= limit {
			return
		}
		need := len(prefix)
		for _, s := range rest {
			need += minLen[s]
		}
		if need > maxLen {
			return
		}
		// find first nonterminal
		for i, s := range rest {
			if alts, nt := g.Rules[s]; nt {
				np := append(append([]string{}, prefix...), rest[:i]...)
				for _, a := range alts {
					nr := append(append([]string{}, a...), rest[i+1:]...)
					rec(np, nr)
				}
				return
			}
		}
		sent := append(append([]string{}, prefix...), rest...)
		k := strings.Join(sent, " ")
		if !seen[k] {
			seen[k] = true
			out = append(out, sent)
		}
	}
	rec(nil, []string{g.Start})
	sort.Slice(out, func(i, j int) bool {
		if len(out[i]) != len(out[j]) {
			return len(out[i]) < len(out[j])
		}
		return strings.Join(out[i], " ") < strings.Join(out[j], " ")
	})
	return out
}

func (g *Grammar) minLens() map[string]int {
	const inf = 1 << 20
	m := map[string]int{}
	for t := range g.Terminals {
		m[t] = 1
	}
	for nt := range g.Rules {
		m[nt] = inf
	}
	for changed := true; changed; {
		changed = false
		for nt, alts := range g.Rules {
			for _, a := range alts {
				s := 0
				for _, x := range a {
					s += m[x]
					if s > inf {
						s = inf
					}
				}
				if s < m[nt] {
					m[nt] = s
					changed = true
				}
			}
		}
	}
	return m
}

// ------------------------------------------------------------------ tokenizer

type Token struct {
	Kind string
	Val  string
}

// TokenizeResult is what the documented tokenisation makes of an input.
type TokenizeResult struct {
	Tokens []Token
	LexErr bool // a lexical error (nothing that can follow `_`)
	// EndsInsideRun is true when the input ends inside a comment, a symbol run or
	// a metadata run (no terminating rune) - used to classify cases, not to judge.
	EndsInsideRun bool
}

func isSymbolRune(r rune) bool {
	return !strings.ContainsRune("/[_;=", r) && !unicode.IsSpace(r)
}

func isMetaRune(r rune) bool { return !strings.ContainsRune("{}=,", r) }

// Tokenize implements the documented tokenisation: white space and `;`
// comments are skipped in normal mode; `_` makes the next run a SYMBOL; `{`
// switches to key=value mode until `}`.
func Tokenize(in []byte) TokenizeResult {
	var res TokenizeResult
	pos := 0
	peek := func() (rune, int) {
		if pos >= len(in) {
			return -1, 0
		}
		r, sz := utf8.DecodeRune(in[pos:])
		return r, sz
	}
	meta, expectSymbol := false, false
	for {
		// skip white space
		for {
			r, sz := peek()
			if r == -1 || !unicode.IsSpace(r) {
				break
			}
			pos += sz
		}
		r, sz := peek()
		if r == -1 {
			return res
		}
		run := func(pred func(rune) bool) string {
			start := pos
			for {
				r, sz := peek()
				if r == -1 {
					res.EndsInsideRun = true
					break
				}
				if !pred(r) {
					break
				}
				pos += sz
			}
			return string(in[start:pos])
		}
		if meta && isMetaRune(r) {
			// blanks in front of a key or value were skipped above, blanks behind it are trivia too
			v := strings.TrimRightFunc(run(isMetaRune), unicode.IsSpace)
			res.Tokens = append(res.Tokens, Token{"METADATA", v})
			continue
		}
		if expectSymbol && r == ';' {
			// a comment between `_` and its symbol is trivia like anywhere else outside braces
			for {
				r, sz := peek()
				if r == -1 {
					res.EndsInsideRun = true
					break
				}
				pos += sz
				if r == '\n' {
					break
				}
			}
			continue
		}
		if expectSymbol {
			if isSymbolRune(r) {
				v := run(isSymbolRune)
				res.Tokens = append(res.Tokens, Token{"SYMBOL", v})
				expectSymbol = false
				continue
			}
			res.LexErr = true
			return res
		}
		single := func(kind string) {
			res.Tokens = append(res.Tokens, Token{kind, string(in[pos : pos+sz])})
			pos += sz
		}
		switch r {
		case ';':
			for {
				r, sz := peek()
				if r == -1 {
					res.EndsInsideRun = true
					break
				}
				pos += sz
				if r == '\n' {
					break
				}
			}
			continue
		case 'C', 'D', 'E', 'F', 'G', 'A', 'B':
			single("SYLLABLE")
		case 'R':
			single("REST")
		case '/':
			single("SLASH")
		case '[':
			single("LBRA")
		case ']':
			single("RBRA")
		case '{':
			meta = true
			single("LCBRA")
		case '}':
			meta = false
			single("RCBRA")
		case '=':
			single("EQUAL")
		case ',':
			single("COMMA")
		case '#', '♯':
			single("SHARP")
		case 'b', '♭':
			single("FLAT")
		case '_':
			expectSymbol = true
			single("UNDERSCORE")
		default:
			if r >= '0' && r <= '9' {
				v := run(func(r rune) bool { return r >= '0' && r <= '9' })
				res.Tokens = append(res.Tokens, Token{"NUMBER", v})
			} else {
				v := run(isSymbolRune)
				res.Tokens = append(res.Tokens, Token{"SYMBOL", v})
			}
		}
	}
}

// Kinds projects tokens to their kinds.
func Kinds(t []Token) []string {
	r := make([]string, len(t))
	for i, x := range t {
		r[i] = x.Kind
	}
	return r
}

// Accept is the reference verdict for an input text.
func (g *Grammar) Accept(in []byte) (bool, TokenizeResult) {
	tr := Tokenize(in)
	if tr.LexErr {
		return false, tr
	}
	return g.Accepts(Kinds(tr.Tokens)), tr
}

// ------------------------------------------------------------------ reference tree

// Item is one chord or rest of the reference tree.
type Item struct {
	Rest    bool        `json:"rest"`
	Degree  string      `json:"degree,omitempty"`
	Acc     string      `json:"acc,omitempty"`
	Symbol  *string     `json:"symbol,omitempty"`
	BassDeg string      `json:"bass_degree,omitempty"`
	BassAcc string      `json:"bass_acc,omitempty"`
	HasBass bool        `json:"has_bass,omitempty"`
	Values  [][2]string `json:"values"`
	Meta    [][2]string `json:"meta,omitempty"`
	HasMeta bool        `json:"has_meta,omitempty"`
}

// Tree builds the reference tree from an accepted token stream by a simple
// hand-written walk over the token kinds (the shape of a chord is fixed by the
// grammar: head [acc] [[_]SYMBOL] [/ head [acc]] [ values ] [{meta}]).
// ok=false if the stream does not have that shape (the caller only uses it for
// accepted inputs and cross-checks with Accepts).
func Tree(toks []Token) ([]Item, bool) {
	var items []Item
	i := 0
	kind := func(k int) string {
		if k < len(toks) {
			return toks[k].Kind
		}
		return ""
	}
	for i < len(toks) {
		var it Item
		switch kind(i) {
		case "REST":
			it.Rest = true
			i++
		case "SYLLABLE", "NUMBER":
			it.Degree = toks[i].Val
			i++
			if kind(i) == "SHARP" || kind(i) == "FLAT" {
				it.Acc = toks[i].Val
				i++
			}
			if kind(i) == "UNDERSCORE" {
				i++
				if kind(i) != "SYMBOL" {
					return nil, false
				}
			}
			if kind(i) == "SYMBOL" {
				s := toks[i].Val
				it.Symbol = &s
				i++
			}
			if kind(i) == "SLASH" {
				i++
				if kind(i) != "SYLLABLE" && kind(i) != "NUMBER" {
					return nil, false
				}
				it.HasBass = true
				it.BassDeg = toks[i].Val
				i++
				if kind(i) == "SHARP" || kind(i) == "FLAT" {
					it.BassAcc = toks[i].Val
					i++
				}
			}
		default:
			return nil, false
		}
		if kind(i) != "LBRA" {
			return nil, false
		}
		i++
		for {
			if kind(i) != "NUMBER" {
				return nil, false
			}
			v := [2]string{toks[i].Val, ""}
			i++
			if kind(i) == "SLASH" {
				i++
				if kind(i) != "NUMBER" {
					return nil, false
				}
				v[1] = toks[i].Val
				i++
			}
			it.Values = append(it.Values, v)
			if kind(i) == "COMMA" {
				i++
				continue
			}
			break
		}
		if kind(i) != "RBRA" {
			return nil, false
		}
		i++
		if kind(i) == "LCBRA" {
			it.HasMeta = true
			i++
			for {
				if kind(i) != "METADATA" || kind(i+1) != "EQUAL" || kind(i+2) != "METADATA" {
					return nil, false
				}
				it.Meta = append(it.Meta, [2]string{toks[i].Val, toks[i+2].Val})
				i += 3
				if kind(i) == "COMMA" {
					i++
					continue
				}
				break
			}
			if kind(i) != "RCBRA" {
				return nil, false
			}
			i++
		}
		items = append(items, it)
	}
	return items, len(items) > 0
}
