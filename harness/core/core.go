// Package core holds what every check shares: the run context, verdict
// bookkeeping, replay files, known findings and the evidence writer.
package core

import (
	"crypto/sha256"
	"encoding/binary"
	"encoding/hex"
	"encoding/json"
	"fmt"
	"math/rand"
	"os"
	"path/filepath"
	"regexp"
	"sort"
	"sync"
	"sync/atomic"
	"time"

	"verif/runner"
)

// Ctx is the context of one check invocation.
type Ctx struct {
	ID       string
	Tier     string // quick | thorough
	Seed     int64
	Root     string // /verif
	Repo     string // /repo
	BuildDir string // per-invocation build output
	Crd      *runner.Runner
	CrdRace  string // path of the -race binary ("" if not built)
	Worker   string // path of vworker ("" if it could not be built)
	Scratch  *runner.Scratch
	Workers  int
	Start    time.Time

	// replay restriction: when non-empty only this stream/index is executed
	OnlyStream string
	OnlyIndex  int

	mu          sync.Mutex
	evals       atomic.Int64
	nontrivial  map[string]struct{}
	samples     []any
	extra       map[string]any
	counters    map[string]int64
	sets        map[string]map[string]struct{}
	violations  []Violation
	knownHits   map[string]int
	inconcl     []string
	assumptions []string
	rule        string
	exhaustive  *bool
	known       []KnownFinding
	maxViol     int
}

// Violation is a refuting observation.
type Violation struct {
	Property string         `json:"property"`
	Sig      string         `json:"signature"` // stable, narrow description used by the known-finding matcher
	Stream   string         `json:"stream"`
	Index    int            `json:"index"`
	Seed     int64          `json:"seed"`
	Tier     string         `json:"tier"`
	What     string         `json:"what"`
	Detail   map[string]any `json:"detail,omitempty"`
	Path     string         `json:"-"`
}

// KnownFinding is one entry of known_findings.json.
type KnownFinding struct {
	Property string `json:"property"`
	ID       string `json:"id"`
	Status   string `json:"status"` // known | fixed
	Match    string `json:"match"`  // regexp over Violation.Sig (status known only)
	What     string `json:"what"`
	Commit   string `json:"commit,omitempty"`
	re       *regexp.Regexp
}

func New(id, tier string, seed int64, root, repo string) *Ctx {
	c := &Ctx{
		ID: id, Tier: tier, Seed: seed, Root: root, Repo: repo,
		nontrivial: map[string]struct{}{}, extra: map[string]any{}, counters: map[string]int64{},
		sets: map[string]map[string]struct{}{}, knownHits: map[string]int{}, Start: time.Now(),
		Workers: 16, maxViol: 20,
	}
	c.loadKnown()
	return c
}

func (c *Ctx) loadKnown() {
	b, err := os.ReadFile(filepath.Join(c.Root, "known_findings.json"))
	if err != nil {
		return
	}
	var all struct {
		Findings []KnownFinding `json:"findings"`
	}
	if err := json.Unmarshal(b, &all); err != nil {
		fmt.Fprintf(os.Stderr, "warning: known_findings.json unreadable: %v\n", err)
		return
	}
	for _, k := range all.Findings {
		if k.Property != c.ID || k.Status != "known" || k.Match == "" {
			continue
		}
		re, err := regexp.Compile(k.Match)
		if err != nil {
			fmt.Fprintf(os.Stderr, "warning: known finding %s: bad match: %v\n", k.ID, err)
			continue
		}
		k.re = re
		c.known = append(c.known, k)
	}
}

// outRoot is where evidence and replay files go: the verif root, unless
// VERIF_OUT_DIR redirects them (used for break trials on seeded changes, which
// must not overwrite the evidence of the unchanged tree).
func (c *Ctx) outRoot() string {
	if d := os.Getenv("VERIF_OUT_DIR"); d != "" {
		return d
	}
	return c.Root
}

// Quick reports the tier.
func (c *Ctx) Quick() bool { return c.Tier != "thorough" }

// N picks a case count by tier.
func (c *Ctx) N(quick, thorough int) int {
	if c.Quick() {
		return quick
	}
	return thorough
}

// RNG returns the deterministic generator of case i of a stream.
func (c *Ctx) RNG(stream string, i int) *rand.Rand {
	h := sha256.New()
	var b [16]byte
	binary.LittleEndian.PutUint64(b[:8], uint64(c.Seed))
	binary.LittleEndian.PutUint64(b[8:], uint64(i))
	h.Write(b[:])
	h.Write([]byte(c.ID))
	h.Write([]byte{0})
	h.Write([]byte(stream))
	s := h.Sum(nil)
	return rand.New(rand.NewSource(int64(binary.LittleEndian.Uint64(s[:8]))))
}

// Stream runs f for every index of a stream in parallel, honouring replay
// restriction and the violation cap.
func (c *Ctx) Stream(stream string, n int, f func(i int, r *rand.Rand)) {
	if c.OnlyStream != "" {
		if c.OnlyStream != stream {
			return
		}
		if c.OnlyIndex >= 0 {
			f(c.OnlyIndex, c.RNG(stream, c.OnlyIndex))
			return
		}
	}
	runner.Parallel(n, c.Workers, func(i int) {
		if c.TooMany() {
			return
		}
		f(i, c.RNG(stream, i))
	})
}

// StreamSeq is Stream without parallelism (for cases that must not overlap).
func (c *Ctx) StreamSeq(stream string, n int, f func(i int, r *rand.Rand)) {
	if c.OnlyStream != "" {
		if c.OnlyStream != stream {
			return
		}
		if c.OnlyIndex >= 0 {
			f(c.OnlyIndex, c.RNG(stream, c.OnlyIndex))
			return
		}
	}
	for i := 0; i < n; i++ {
		if c.TooMany() {
			return
		}
		f(i, c.RNG(stream, i))
	}
}

func (c *Ctx) TooMany() bool {
	c.mu.Lock()
	defer c.mu.Unlock()
	return len(c.violations) >= c.maxViol
}

// Eval counts executed cases.
func (c *Ctx) Eval(n int) { c.evals.Add(int64(n)) }

// Nontrivial records a distinct non-trivial case.
func (c *Ctx) Nontrivial(key string) {
	c.mu.Lock()
	c.nontrivial[key] = struct{}{}
	c.mu.Unlock()
}

// Count adds to a named counter reported in the evidence.
func (c *Ctx) Count(name string, n int) {
	c.mu.Lock()
	c.counters[name] += int64(n)
	c.mu.Unlock()
}

// Seen adds a value to a named set reported (as sorted list or size) in the evidence.
func (c *Ctx) Seen(set, v string) {
	c.mu.Lock()
	m := c.sets[set]
	if m == nil {
		m = map[string]struct{}{}
		c.sets[set] = m
	}
	m[v] = struct{}{}
	c.mu.Unlock()
}

func (c *Ctx) SeenCount(set string) int {
	c.mu.Lock()
	defer c.mu.Unlock()
	return len(c.sets[set])
}

// WantSample reports whether another literal case is still wanted.
func (c *Ctx) WantSample() bool {
	c.mu.Lock()
	defer c.mu.Unlock()
	return len(c.samples) < 5
}

// Sample keeps up to five literal cases for the evidence.
func (c *Ctx) Sample(v any) {
	c.mu.Lock()
	if len(c.samples) < 5 {
		c.samples = append(c.samples, v)
	}
	c.mu.Unlock()
}

func (c *Ctx) Extra(k string, v any) {
	c.mu.Lock()
	c.extra[k] = v
	c.mu.Unlock()
}

func (c *Ctx) Rule(s string)      { c.rule = s }
func (c *Ctx) Assume(s ...string) { c.assumptions = append(c.assumptions, s...) }
func (c *Ctx) Exhaustive(v bool)  { c.exhaustive = &v }
func (c *Ctx) Inconclusive(s string) {
	c.mu.Lock()
	c.inconcl = append(c.inconcl, s)
	c.mu.Unlock()
}

// Violate records a violation (or a known finding).
func (c *Ctx) Violate(stream string, index int, sig, what string, detail map[string]any) {
	for _, k := range c.known {
		if k.re.MatchString(sig) {
			c.mu.Lock()
			c.knownHits[k.ID]++
			c.mu.Unlock()
			return
		}
	}
	v := Violation{Property: c.ID, Sig: sig, Stream: stream, Index: index, Seed: c.Seed, Tier: c.Tier, What: what, Detail: detail}
	c.mu.Lock()
	defer c.mu.Unlock()
	for _, o := range c.violations {
		if o.Sig == sig && o.Stream == stream && o.Index == index {
			return
		}
	}
	if len(c.violations) >= c.maxViol {
		return
	}
	c.violations = append(c.violations, v)
}

func (c *Ctx) Violations() int {
	c.mu.Lock()
	defer c.mu.Unlock()
	return len(c.violations)
}

// Finish writes replay files and the evidence file and returns the exit code.
func (c *Ctx) Finish() int {
	c.mu.Lock()
	defer c.mu.Unlock()
	wall := time.Since(c.Start).Seconds()

	// known findings
	var knownIDs []string
	for id := range c.knownHits {
		knownIDs = append(knownIDs, id)
	}
	sort.Strings(knownIDs)
	for _, id := range knownIDs {
		for _, k := range c.known {
			if k.ID == id {
				fmt.Printf("KNOWN-FINDING: property=%s %s [%s, %d case(s) this run]\n", c.ID, k.What, k.ID, c.knownHits[id])
			}
		}
	}

	sort.SliceStable(c.violations, func(i, j int) bool {
		a, b := c.violations[i], c.violations[j]
		if a.Stream != b.Stream {
			return a.Stream < b.Stream
		}
		return a.Index < b.Index
	})
	for i := range c.violations {
		v := &c.violations[i]
		h := sha256.Sum256([]byte(fmt.Sprintf("%s|%s|%d|%d|%s", v.Sig, v.Stream, v.Index, v.Seed, v.Tier)))
		dir := filepath.Join(c.outRoot(), "replay", c.ID)
		os.MkdirAll(dir, 0o755)
		v.Path = filepath.Join(dir, hex.EncodeToString(h[:6])+".json")
		b, _ := json.MarshalIndent(v, "", " ")
		os.WriteFile(v.Path, b, 0o644)
		fmt.Printf("VIOLATION property=%s replay=%s\n", c.ID, v.Path)
		fmt.Printf("  what: %s\n  signature: %s\n", v.What, v.Sig)
	}

	if c.OnlyStream != "" {
		// replay mode: never rewrite evidence
		if len(c.violations) > 0 {
			return 1
		}
		fmt.Printf("replay: property %s held on the replayed case\n", c.ID)
		return 0
	}

	cov := map[string]any{
		"evaluations":         c.evals.Load(),
		"distinct_nontrivial": len(c.nontrivial),
		"rule":                c.rule,
		"samples":             c.samples,
		"known_findings_hit":  c.knownHits,
		"child_processes":     int64(0),
	}
	if c.Crd != nil {
		cov["child_processes"] = c.Crd.Runs.Load()
		cov["wallclock_watchdog_hits"] = c.Crd.WallHits.Load()
	}
	if c.exhaustive != nil {
		cov["exhaustive"] = *c.exhaustive
	}
	for k, v := range c.counters {
		cov[k] = v
	}
	for k, m := range c.sets {
		if len(m) <= 64 {
			var l []string
			for s := range m {
				l = append(l, s)
			}
			sort.Strings(l)
			cov[k] = l
		}
		cov[k+"_count"] = len(m)
	}
	for k, v := range c.extra {
		cov[k] = v
	}
	if len(c.samples) == 0 {
		cov["samples"] = []any{}
	}
	ev := map[string]any{
		"property_id": c.ID,
		"tier":        c.Tier,
		"seed":        c.Seed,
		"level":       "exploration",
		"coverage":    cov,
		"assumptions": c.assumptions,
		"wall_s":      wall,
		"violations":  len(c.violations),
	}
	if len(c.inconcl) > 0 {
		ev["inconclusive"] = c.inconcl
	}
	b, _ := json.MarshalIndent(ev, "", " ")
	os.MkdirAll(filepath.Join(c.outRoot(), "evidence"), 0o755)
	os.WriteFile(filepath.Join(c.outRoot(), "evidence", c.ID+".json"), append(b, '\n'), 0o644)

	fmt.Printf("%s %s seed=%d: evaluations=%d distinct_nontrivial=%d violations=%d known=%d wall=%.1fs\n",
		c.ID, c.Tier, c.Seed, c.evals.Load(), len(c.nontrivial), len(c.violations), len(c.knownHits), wall)
	if len(c.violations) > 0 {
		return 1
	}
	if len(c.inconcl) > 0 {
		for _, s := range c.inconcl {
			fmt.Printf("INCONCLUSIVE: %s\n", s)
		}
		return 2
	}
	if c.evals.Load() == 0 || len(c.nontrivial) < 2 {
		fmt.Printf("INCONCLUSIVE: the monitor observed too little (evaluations=%d, distinct non-trivial=%d)\n", c.evals.Load(), len(c.nontrivial))
		return 2
	}
	return 0
}

// Trunc shortens byte strings for messages.
func Trunc(b []byte, n int) string {
	if len(b) <= n {
		return string(b)
	}
	return string(b[:n]) + fmt.Sprintf("...(%d bytes)", len(b))
}
