package main

import (
	"fmt"
	"os"
	"time"

	"verif/runner"
)

func main() {
	r := runner.New(os.Args[1])
	for _, kind := range []string{"pipe", "file", "fileoffset", "socket", "pty"} {
		for _, args := range [][]string{{"text", "parse"}, {"text", "conv", "syllable"}, {"text", "parse", "-"}} {
			t0 := time.Now()
			res := r.Run(runner.Opt{Stdin: []byte("C[1] Am7/G[2]{txt=x}\nR[1] ;c\nD_7[1]"), StdinKind: kind}, args...)
			fmt.Printf("%-10s %v exit=%d sig=%d out=%d bytes err=%q wall=%v starterr=%v\n", kind, args, res.Exit, res.Signal, len(res.Stdout), firstLine(res.Stderr), time.Since(t0).Round(time.Millisecond), res.StartErr)
		}
	}
	t0 := time.Now()
	r1 := r.Run(runner.Opt{Stdin: []byte("C[1] D[1]\n"), StdinKind: "pty1", IdleAfter: 2 * time.Second}, "text", "parse")
	fmt.Printf("pty1 text parse exit=%d sig=%d blocked=%v out=%d wall=%v\n", r1.Exit, r1.Signal, r1.Blocked, len(r1.Stdout), time.Since(t0).Round(time.Millisecond))
	r2 := r.Run(runner.Opt{Stdin: []byte("C[1] D[1]\n"), StdinKind: "eio"}, "text", "parse")
	fmt.Printf("eio text parse exit=%d out=%d err=%q\n", r2.Exit, len(r2.Stdout), firstLine(r2.Stderr))
	res := r.Run(runner.Opt{Stdin: []byte("- chord: {degree: \"1\", name: \"m7\"}\n  values: [1]\n"), StdinKind: "pty"}, "write", "event")
	fmt.Printf("pty write event exit=%d out=%d err=%q\n", res.Exit, len(res.Stdout), firstLine(res.Stderr))
}

func firstLine(b []byte) string {
	for i, c := range b {
		if c == '\n' {
			return string(b[:i])
		}
	}
	return string(b)
}
