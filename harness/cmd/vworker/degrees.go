package main

import (
	"fmt"

	"github.com/berquerant/crd/note"
	"gopkg.in/yaml.v3"
)

// qualityNames is ordered like theory.Qualities.
var qualityNames = []note.DegreeName{
	note.MajorDegree, note.MinorDegree, note.PerfectDegree, note.AugmentedDegree,
	note.DiminishedDegree, note.DoublyAugmentedDegree, note.DoublyDiminishedDegree,
}

func qIndex(n note.DegreeName) int {
	for i, x := range qualityNames {
		if x == n {
			return i
		}
	}
	return -1
}

type degreeRec struct {
	N        int    `json:"n"`
	Q        int    `json:"q"`
	OK       bool   `json:"ok"`
	Semi     int    `json:"semi"`
	Str      string `json:"str"`
	ParseErr string `json:"parse_err,omitempty"`
	PN       int    `json:"pn"`
	PQ       int    `json:"pq"`
	YAMLErr  string `json:"yaml_err,omitempty"`
	YN       int    `json:"yn"`
	YQ       int    `json:"yq"`
	YAML     string `json:"yaml"`
	Panic    string `json:"panic,omitempty"`
}

func modeDegrees(maxN int) {
	for n := 0; n <= maxN; n++ {
		for qi, name := range qualityNames {
			rec := degreeRec{N: n, Q: qi}
			begin(fmt.Sprintf("degree %d %d", n, qi))
			func() {
				defer func() {
					if r := recover(); r != nil {
						rec.Panic = fmt.Sprint(r)
					}
				}()
				d, ok := note.NewDegree(uint(n), name)
				rec.OK = ok
				if !ok {
					return
				}
				s, _ := d.Semitone()
				rec.Semi = int(s)
				rec.Str = d.String()
				pd, err := note.ParseDegree(rec.Str)
				if err != nil {
					rec.ParseErr = err.Error()
				} else {
					rec.PN, rec.PQ = int(pd.Value), qIndex(pd.Name)
				}
				b, err := yaml.Marshal(d)
				if err != nil {
					rec.YAMLErr = err.Error()
					return
				}
				rec.YAML = string(b)
				var yd note.Degree
				if err := yaml.Unmarshal(b, &yd); err != nil {
					rec.YAMLErr = err.Error()
					return
				}
				rec.YN, rec.YQ = int(yd.Value), qIndex(yd.Name)
			}()
			emit(rec)
		}
	}
}

type parseStrRec struct {
	S      string `json:"s"`
	N      int    `json:"n"`
	Q      int    `json:"q"`
	Semi   int    `json:"semi"`
	Str    string `json:"str"`
	Stable bool   `json:"stable"`
	Panic  string `json:"panic,omitempty"`
}

// modeParseStrings enumerates all strings over the alphabet up to maxLen and
// reports every accepted one (shard k of m by enumeration index).
func modeParseStrings(alphabet string, maxLen, shard, shards int) {
	if alphabet == "" {
		alphabet = "b#0123456789"
	}
	if shards < 1 {
		shards = 1
	}
	total, accepted, idx := 0, 0, 0
	var rec func(prefix []byte, left int)
	visit := func(s string) {
		idx++
		if idx%shards != shard {
			return
		}
		total++
		r := parseStrRec{S: s}
		ok := false
		func() {
			defer func() {
				if p := recover(); p != nil {
					r.Panic = fmt.Sprint(p)
					ok = true
				}
			}()
			d, err := note.ParseDegree(s)
			if err != nil {
				return
			}
			ok = true
			sm, _ := d.Semitone()
			r.N, r.Q, r.Semi, r.Str = int(d.Value), qIndex(d.Name), int(sm), d.String()
			d2, err := note.ParseDegree(r.Str)
			r.Stable = err == nil && d2 == d
		}()
		if ok {
			accepted++
			emit(r)
		}
	}
	rec = func(prefix []byte, left int) {
		if len(prefix) > 0 {
			visit(string(prefix))
		}
		if left == 0 {
			return
		}
		for i := 0; i < len(alphabet); i++ {
			rec(append(prefix, alphabet[i]), left-1)
		}
	}
	rec(nil, maxLen)
	emit(map[string]any{"summary": true, "total": total, "accepted": accepted})
}
