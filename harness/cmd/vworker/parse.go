package main

import (
	"bufio"
	"bytes"
	"encoding/base64"
	"encoding/json"
	"fmt"
	"os"
	"time"

	"github.com/berquerant/crd/input/ast"
	"github.com/berquerant/ybase"
)

type parseReq struct {
	I    int    `json:"i"`
	S    string `json:"s"` // base64
	Tree bool   `json:"t"`
}

type pItem struct {
	Rest    bool        `json:"rest"`
	Degree  string      `json:"degree,omitempty"`
	Acc     string      `json:"acc,omitempty"`
	Symbol  *string     `json:"symbol,omitempty"`
	BassDeg string      `json:"bass_degree,omitempty"`
	BassAcc string      `json:"bass_acc,omitempty"`
	HasBass bool        `json:"has_bass,omitempty"`
	Values  [][2]string `json:"values"`
	Meta    [][2]string `json:"meta,omitempty"`
	HasMeta bool        `json:"has_meta,omitempty"`
}

type parseResp struct {
	I     int     `json:"i"`
	Acc   bool    `json:"acc"`
	RC    int     `json:"rc"`
	N     int     `json:"n"`
	Res   bool    `json:"res"` // lexer.Result set
	Items []pItem `json:"items,omitempty"`
	Panic string  `json:"panic,omitempty"`
	Hang  bool    `json:"hang,omitempty"`
}

func tokVal(t ybase.Token) string {
	if t == nil {
		return ""
	}
	return t.Value()
}

func treeOf(l *ast.ChordList) []pItem {
	var out []pItem
	for _, x := range l.List {
		var it pItem
		var vals *ast.ChordValues
		var meta *ast.ChordMeta
		switch v := x.(type) {
		case *ast.Rest:
			it.Rest = true
			vals, meta = v.Values, v.Meta
		case *ast.Chord:
			if v.Degree != nil {
				it.Degree = tokVal(v.Degree.Degree)
				it.Acc = tokVal(v.Degree.Accidental)
			}
			if v.Symbol != nil {
				s := tokVal(v.Symbol.Symbol)
				it.Symbol = &s
			}
			if v.Base != nil && v.Base.Degree != nil {
				it.HasBass = true
				it.BassDeg = tokVal(v.Base.Degree.Degree)
				it.BassAcc = tokVal(v.Base.Degree.Accidental)
			}
			vals, meta = v.Values, v.Meta
		}
		if vals != nil {
			for _, v := range vals.Values {
				it.Values = append(it.Values, [2]string{tokVal(v.Num), tokVal(v.Denom)})
			}
		}
		if meta != nil {
			it.HasMeta = true
			for _, d := range meta.Data {
				it.Meta = append(it.Meta, [2]string{tokVal(d.Key), tokVal(d.Value)})
			}
		}
		out = append(out, it)
	}
	return out
}

// modeParse reads requests from stdin and parses each text exactly the way
// cmd/io.go parseText does: accepted iff the lexer reports no error.
func modeParse() {
	sc := bufio.NewScanner(os.Stdin)
	sc.Buffer(make([]byte, 1<<20), 1<<28)
	for sc.Scan() {
		var rq parseReq
		if json.Unmarshal(sc.Bytes(), &rq) != nil {
			continue
		}
		src, err := base64.StdEncoding.DecodeString(rq.S)
		if err != nil {
			continue
		}
		begin(fmt.Sprint(rq.I))
		resp := parseResp{I: rq.I}
		done := make(chan struct{})
		go func() {
			defer close(done)
			defer func() {
				if p := recover(); p != nil {
					resp.Panic = fmt.Sprint(p)
				}
			}()
			lex := ast.NewLexer(bytes.NewReader(src))
			resp.RC = ast.Parse(lex)
			resp.Acc = lex.Err() == nil
			resp.Res = lex.Result != nil
			if lex.Result != nil {
				resp.N = len(lex.Result.List)
				if rq.Tree && resp.Acc {
					resp.Items = treeOf(lex.Result)
				}
			}
		}()
		select {
		case <-done:
			emit(resp)
		case <-time.After(8 * time.Second):
			// the parse goroutine cannot be stopped: report and end this shard, the
			// driver re-runs the case alone under a CPU limit and restarts after it
			emit(parseResp{I: rq.I, Hang: true})
			out.Flush()
			os.Exit(3)
		}
	}
}
