package main

import (
	"bufio"
	"bytes"
	"encoding/base64"
	"encoding/json"
	"fmt"
	"math/rand"
	"os"
	"runtime"
	"syscall"
	"time"

	"github.com/berquerant/crd/astconv"
	"github.com/berquerant/crd/input/ast"
)

// preorder is an independent document-order walk over the tree.
func preorder(l *ast.ChordList) []ast.Node {
	var out []ast.Node
	add := func(n ast.Node) { out = append(out, n) }
	degree := func(d *ast.ChordDegree) {
		if d != nil {
			add(d)
		}
	}
	values := func(v *ast.ChordValues) {
		if v == nil {
			return
		}
		add(v)
		for _, x := range v.Values {
			if x != nil {
				add(x)
			}
		}
	}
	meta := func(m *ast.ChordMeta) {
		if m == nil {
			return
		}
		add(m)
		for _, x := range m.Data {
			if x != nil {
				add(x)
			}
		}
	}
	if l == nil {
		return nil
	}
	add(l)
	for _, it := range l.List {
		switch v := it.(type) {
		case *ast.Chord:
			if v == nil {
				continue
			}
			add(v)
			degree(v.Degree)
			if v.Symbol != nil {
				add(v.Symbol)
			}
			if v.Base != nil {
				add(v.Base)
				degree(v.Base.Degree)
			}
			values(v.Values)
			meta(v.Meta)
		case *ast.Rest:
			if v == nil {
				continue
			}
			add(v)
			values(v.Values)
			meta(v.Meta)
		}
	}
	return out
}

type iterReq struct {
	I int    `json:"i"`
	S string `json:"s"`
}

type iterResp struct {
	I         int    `json:"i"`
	Nodes     int    `json:"nodes"`
	Behaviour string `json:"behaviour"`
	Problem   string `json:"problem,omitempty"`
	Classify  string `json:"classify"`
}

func cpuTime() time.Duration {
	var ru syscall.Rusage
	if err := syscall.Getrusage(syscall.RUSAGE_SELF, &ru); err != nil {
		return 0
	}
	return time.Duration(ru.Utime.Nano() + ru.Stime.Nano())
}

// modeIter reads texts, parses each, and runs the channel iterator under
// several consumer behaviours, comparing with the independent pre-order walk.
func modeIter(_ int, seed int64) {
	r := rand.New(rand.NewSource(seed))
	sc := bufio.NewScanner(os.Stdin)
	sc.Buffer(make([]byte, 1<<20), 1<<28)
	for sc.Scan() {
		var rq iterReq
		if json.Unmarshal(sc.Bytes(), &rq) != nil {
			continue
		}
		src, _ := base64.StdEncoding.DecodeString(rq.S)
		begin(fmt.Sprint(rq.I))
		lex := ast.NewLexer(bytes.NewReader(src))
		ast.Parse(lex)
		if lex.Err() != nil || lex.Result == nil {
			emit(iterResp{I: rq.I, Problem: "unparsable"})
			continue
		}
		want := preorder(lex.Result)
		for _, beh := range []string{"drain", "break", "gosched", "sleep", "break0"} {
			resp := iterResp{I: rq.I, Nodes: len(want), Behaviour: beh}
			done := make(chan struct{})
			go func() {
				defer close(done)
				defer func() {
					if p := recover(); p != nil {
						resp.Problem = fmt.Sprint("panic: ", p)
					}
				}()
				stopAt := -1
				switch beh {
				case "break":
					stopAt = r.Intn(len(want))
				case "break0":
					stopAt = 0
				}
				k := 0
				for n := range ast.NewIterVisitor().All(lex.Result) {
					if k >= len(want) {
						resp.Problem = fmt.Sprintf("yields more than %d nodes", len(want))
						break
					}
					if n != want[k] {
						resp.Problem = fmt.Sprintf("node %d is %T, document order has %T", k, n, want[k])
						break
					}
					if k == stopAt {
						k++
						break
					}
					k++
					switch beh {
					case "gosched":
						runtime.Gosched()
					case "sleep":
						if k%10 == 0 {
							time.Sleep(50 * time.Microsecond)
						}
					}
				}
				if resp.Problem == "" && stopAt < 0 && k != len(want) {
					resp.Problem = fmt.Sprintf("yields %d nodes, the tree has %d", k, len(want))
				}
			}()
			finished := false
			for round := 0; !finished; round++ {
				select {
				case <-done:
					finished = true
				case <-time.After(15 * time.Second):
					// not a verdict by the clock: the iteration is declared dead only when the
					// process stopped consuming CPU although the iteration is unfinished
					// (everything is blocked); as long as it burns CPU it is merely slow
					before := cpuTime()
					select {
					case <-done:
						finished = true
						continue
					case <-time.After(3 * time.Second):
					}
					if cpuTime()-before < 20*time.Millisecond {
						resp.Problem = "deadlock: producer and consumer are both blocked (no CPU consumed for 3 s, iteration unfinished)"
						emit(resp)
						out.Flush()
						os.Exit(3)
					}
					if round >= 20 {
						resp.Problem = "inconclusive: iteration still running after 6 minutes"
						emit(resp)
						out.Flush()
						os.Exit(4)
					}
				}
			}
			// the real consumer
			if beh == "drain" {
				t, err := astconv.NewASTClassifier().Classify(lex.Result)
				resp.Classify = fmt.Sprint(t)
				if err != nil {
					resp.Classify = "error"
				}
			}
			emit(resp)
		}
	}
	// goroutines of the last iterations may still be on their way out: a leaked one stays for good, so wait
	// (generously, the machine may be loaded) until the count is back to the main goroutine and the watchdog
	for w := 0; w < 6000 && runtime.NumGoroutine() > 2; w++ {
		time.Sleep(10 * time.Millisecond)
	}
	sends, full, empty, maxlen, hooked := iterStats()
	emit(map[string]any{"summary": true, "goroutines": runtime.NumGoroutine(), "gomaxprocs": runtime.GOMAXPROCS(0),
		"sends": sends, "full": full, "empty": empty, "maxlen": maxlen, "hooked": hooked})
}
