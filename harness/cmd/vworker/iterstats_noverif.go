//go:build !verifhook

package main

func iterStats() (sends, full, empty, maxlen int64, hooked bool) { return 0, 0, 0, 0, false }
