package main

func modeChains(L, shard, shards int) {}
