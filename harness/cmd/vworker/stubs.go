package main

func modeChains(L, shard, shards int) {}
func modeIter(n int, seed int64)      {}
