package main

func modeScalars()                    {}
func modeChains(L, shard, shards int) {}
func modeIter(n int, seed int64)      {}
