package main

import (
	"bufio"
	"encoding/json"
	"fmt"
	"os"
	"reflect"

	"github.com/berquerant/crd/input"
	"github.com/berquerant/crd/note"
	"github.com/berquerant/crd/op"
	"github.com/berquerant/crd/util"
	"gopkg.in/yaml.v3"
)

type scalarReq struct {
	I    int               `json:"i"`
	T    string            `json:"t"`
	N    uint64            `json:"n"`
	D    uint64            `json:"d"`
	Q    int               `json:"q"`
	S    string            `json:"s"`
	M    map[string]string `json:"m"`
	Inst *instReq          `json:"inst"`
}

type instReq struct {
	Chord   bool              `json:"chord"`
	DegN    uint64            `json:"deg_n"`
	DegQ    int               `json:"deg_q"`
	Symbol  string            `json:"symbol"`
	HasBass bool              `json:"has_bass"`
	BassN   uint64            `json:"bass_n"`
	BassQ   int               `json:"bass_q"`
	Values  [][2]uint64       `json:"values"`
	BPM     uint64            `json:"bpm"`
	Meter   *[2]uint64        `json:"meter"`
	Vel     string            `json:"vel"`
	Key     string            `json:"key"`
	Meta    map[string]string `json:"meta"`
}

type scalarResp struct {
	I      int    `json:"i"`
	Skip   string `json:"skip,omitempty"`
	OK     bool   `json:"ok"`
	YAML   string `json:"yaml"`
	Err    string `json:"err,omitempty"`
	Before string `json:"before,omitempty"`
	After  string `json:"after,omitempty"`
	Panic  string `json:"panic,omitempty"`
}

func roundTrip[T any](v T, resp *scalarResp) {
	b, err := yaml.Marshal(v)
	if err != nil {
		resp.Err = "marshal: " + err.Error()
		return
	}
	resp.YAML = string(b)
	var w T
	if err := yaml.Unmarshal(b, &w); err != nil {
		resp.Err = "unmarshal: " + err.Error()
		return
	}
	resp.OK = reflect.DeepEqual(v, w)
	if !resp.OK {
		resp.Before = fmt.Sprintf("%#v", v)
		resp.After = fmt.Sprintf("%#v", w)
	}
}

func buildInstance(r *instReq) (*input.Instance, string) {
	in := &input.Instance{}
	if r.Chord {
		d, ok := note.NewDegree(uint(r.DegN), qualityNames[r.DegQ])
		if !ok {
			return nil, "degree does not exist"
		}
		c := &input.Chord{Degree: d, Chord: r.Symbol}
		if r.HasBass {
			b, ok := note.NewDegree(uint(r.BassN), qualityNames[r.BassQ])
			if !ok {
				return nil, "bass does not exist"
			}
			c.Base = &b
		}
		in.Chord = c
	}
	for _, v := range r.Values {
		x, err := note.NewValue(uint(v[0]), uint(v[1]))
		if err != nil {
			return nil, "value invalid"
		}
		in.Values = append(in.Values, x)
	}
	if r.BPM != 0 {
		b, err := op.NewBPM(uint(r.BPM))
		if err != nil {
			return nil, "bpm invalid"
		}
		in.BPM = &b
	}
	if r.Meter != nil {
		m, err := op.NewMeter(uint(r.Meter[0]), uint(r.Meter[1]))
		if err != nil {
			return nil, "meter invalid"
		}
		in.Meter = &m
	}
	if r.Vel != "" {
		d := op.NewDynamicSign(r.Vel)
		if d == op.UnknownDynamicSign {
			return nil, "dynamic unknown"
		}
		in.Velocity = &d
	}
	if r.Key != "" {
		k, err := op.ParseKey(r.Key)
		if err != nil {
			return nil, "key invalid"
		}
		in.Key = &k
	}
	if r.Meta != nil {
		m := op.Meta(r.Meta)
		in.Meta = &m
	}
	return in, ""
}

func modeScalars() {
	sc := bufio.NewScanner(os.Stdin)
	sc.Buffer(make([]byte, 1<<20), 1<<28)
	for sc.Scan() {
		var rq scalarReq
		if json.Unmarshal(sc.Bytes(), &rq) != nil {
			continue
		}
		begin(fmt.Sprint(rq.I))
		resp := scalarResp{I: rq.I}
		func() {
			defer func() {
				if p := recover(); p != nil {
					resp.Panic = fmt.Sprint(p)
				}
			}()
			switch rq.T {
			case "degree":
				d, ok := note.NewDegree(uint(rq.N), qualityNames[rq.Q])
				if !ok {
					resp.Skip = "does not exist"
					return
				}
				roundTrip(d, &resp)
			case "key":
				k, err := op.ParseKey(rq.S)
				if err != nil {
					resp.Skip = "not a key"
					return
				}
				if k.String() != rq.S {
					resp.Err = fmt.Sprintf("ParseKey(%q).String() = %q", rq.S, k.String())
					return
				}
				roundTrip(k, &resp)
			case "rat":
				roundTrip(util.NewRat(uint(rq.N), uint(rq.D)), &resp)
			case "value":
				v, err := note.NewValue(uint(rq.N), uint(rq.D))
				if err != nil {
					resp.Skip = "invalid"
					return
				}
				roundTrip(v, &resp)
			case "meter":
				v, err := op.NewMeter(uint(rq.N), uint(rq.D))
				if err != nil {
					resp.Skip = "invalid"
					return
				}
				roundTrip(v, &resp)
			case "dynamic":
				d := op.NewDynamicSign(rq.S)
				if d == op.UnknownDynamicSign {
					resp.Skip = "unknown"
					return
				}
				roundTrip(d, &resp)
			case "bpm":
				b, err := op.NewBPM(uint(rq.N))
				if err != nil {
					resp.Skip = "invalid"
					return
				}
				roundTrip(b, &resp)
			case "meta":
				roundTrip(op.Meta(rq.M), &resp)
			case "instance":
				in, why := buildInstance(rq.Inst)
				if in == nil {
					resp.Skip = why
					return
				}
				roundTrip([]*input.Instance{in}, &resp)
			default:
				resp.Skip = "unknown type"
			}
		}()
		emit(resp)
	}
}
