//go:build verifhook

package main

import "github.com/berquerant/crd/input/ast"

// iterStats reads the counters of the verif hook in IterVisitor.send.
func iterStats() (sends, full, empty, maxlen int64, hooked bool) {
	s := &ast.VerifIterStats
	return s.Sends.Load(), s.Full.Load(), s.Empty.Load(), s.MaxLen.Load(), true
}
