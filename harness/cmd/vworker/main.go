package main

func main() {}
