// vworker links the real crd packages and exposes a few of their entry points
// to the driver. One invocation = one shard = one process; every case id is
// printed before the call so that a crash or hang can be attributed.
//
// Output: JSON lines on stdout.
package main

import (
	"bufio"
	"encoding/json"
	"fmt"
	"os"
	"strconv"
)

var out = bufio.NewWriterSize(os.Stdout, 1<<20)

func emit(v any) {
	b, _ := json.Marshal(v)
	out.Write(b)
	out.WriteByte('\n')
}

// begin announces a case (flushed, so it survives a crash).
func begin(id string) {
	fmt.Fprintf(os.Stderr, "CASE %s\n", id)
}

func atoi(s string, d int) int {
	v, err := strconv.Atoi(s)
	if err != nil {
		return d
	}
	return v
}

func main() {
	defer out.Flush()
	if len(os.Args) < 2 {
		fmt.Fprintln(os.Stderr, "usage: vworker MODE ...")
		os.Exit(2)
	}
	switch os.Args[1] {
	case "degrees":
		modeDegrees(atoi(arg(2), 64))
	case "parsestrings":
		modeParseStrings(arg(2), atoi(arg(3), 4), atoi(arg(4), 0), atoi(arg(5), 1))
	case "parse":
		modeParse()
	case "scalars":
		modeScalars()
	case "chains":
		modeChains(atoi(arg(2), 6), atoi(arg(3), 0), atoi(arg(4), 1))
	case "iter":
		modeIter(atoi(arg(2), 100), int64(atoi(arg(3), 1)))
	default:
		fmt.Fprintln(os.Stderr, "unknown mode")
		os.Exit(2)
	}
}

func arg(i int) string {
	if i < len(os.Args) {
		return os.Args[i]
	}
	return ""
}
