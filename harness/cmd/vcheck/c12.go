package main

import (
	"bytes"
	"encoding/base64"
	"encoding/json"
	"fmt"
	"math/rand"
	"os"
	"path/filepath"
	"sort"
	"strings"
	"time"

	"verif/core"
	"verif/model"
	"verif/runner"
	"verif/theory"
)

func init() { register("C12", checkC12) }

// detClass is one (command, arguments, input) whose output must never vary.
type detClass struct {
	name   string
	args   []string
	input  []byte // nil: the command reads nothing
	reads  bool   // accepts [FILE]
	writes bool   // honours -o
}

type runVariant struct {
	procs    int    // GOMAXPROCS, 0 = default
	race     bool   // race-detector build
	debug    bool   // --debug
	inPath   string // stdin | dash | file
	outFile  bool
	prefill  bool   // the -o file exists already and is longer than the new output
	inPlace  bool   // FILE input and -o name the same file
	devNull  bool   // standard input is /dev/null instead of a pipe (commands that read nothing, or an empty input)
	pieces   int    // > 1: standard input arrives in that many pieces with pauses (short reads)
	outNull  bool   // standard output is /dev/null (a character device): only success is compared
	oddName  bool   // FILE and -o names contain $, ~, blanks and braces
	linkCwd  bool   // the working directory is entered through a symbolic link and -o is relative with a .. in it
	late     bool   // the producer of the standard input starts 2.6 s late (a slow pipeline, somebody typing)
	outDev   string // -o names a device: /dev/stdout, /dev/fd/1 (the result arrives on the standard output) or /dev/null (success only)
	appendIn bool   // FILE input, and the standard output is appended to that very file (crd ... f >> f)
}

func (v runVariant) String() string {
	return fmt.Sprintf("procs=%d race=%v debug=%v in=%s out-o=%v existing-file=%v in-place=%v stdin-devnull=%v stdin-pieces=%d stdout-devnull=%v odd-file-names=%v cwd-through-symlink=%v stdin-starts-late=%v o-device=%q stdout-appended-to-input=%v", v.procs, v.race, v.debug, v.inPath, v.outFile, v.prefill, v.inPlace, v.devNull, v.pieces, v.outNull, v.oddName, v.linkCwd, v.late, v.outDev, v.appendIn)
}

// runClass executes one variant and returns (success, output bytes, result).
func runClass(c *core.Ctx, cl detClass, v runVariant) (bool, []byte, *runner.Result) {
	args := append([]string{}, cl.args...)
	opt := runner.Opt{Stdin: []byte{}}
	if v.procs > 0 {
		opt.Env = append(opt.Env, fmt.Sprintf("GOMAXPROCS=%d", v.procs))
	}
	if v.race {
		opt.Bin = c.CrdRace
		opt.CPUSec = 90
		opt.Env = append(opt.Env, "GORACE=halt_on_error=0 atexit_sleep_ms=0")
	}
	if v.debug {
		args = append(args, "--debug")
	}
	if v.devNull {
		opt.Stdin = nil // the runner then leaves stdin connected to /dev/null
	}
	var inFile string
	inName, outName := "c12.in", "c12.out"
	if v.oddName {
		inName, outName = "Ke$ha - ${TiK} ~ToK$HOME.in", "A$AP ~ $PATH {x}.out"
	}
	opt.StdinPieces = v.pieces
	if v.late {
		opt.StdinDelay = 2600 * time.Millisecond
	}
	if v.outNull {
		opt.Redirect = ">/dev/null"
	}
	if cl.input != nil {
		switch v.inPath {
		case "dash":
			opt.Stdin = cl.input
			args = append(args, "-")
		case "file":
			inFile = c.Scratch.File(inName, cl.input)
			args = append(args, inFile)
		case "dashfile":
			// a file that is called "-", addressed as ./- : a FILE like any other, not the standard input
			dir := c.Scratch.Path("dashdir")
			os.MkdirAll(dir, 0o755)
			os.WriteFile(filepath.Join(dir, "-"), cl.input, 0o644)
			opt.Dir = dir
			opt.Stdin = []byte("C[1]{txt=this is the standard input, not the FILE}\n")
			args = append(args, []string{"./-", ".//-", "../" + filepath.Base(dir) + "/-"}[len(cl.input)%3])
		case "devstdin":
			// FILE that is a pipe
			opt.Stdin = cl.input
			args = append(args, "/dev/stdin")
		case "regular", "fileoffset", "socket":
			// standard input that is not a pipe: a regular file, a regular file whose first line somebody else has
			// read already (the input starts at the current offset), a socket
			opt.Stdin = cl.input
			opt.StdinKind = map[string]string{"regular": "file", "fileoffset": "fileoffset", "socket": "socket"}[v.inPath]
			if len(cl.input) == 0 {
				opt.StdinKind = ""
			}
		default:
			if !v.devNull {
				opt.Stdin = cl.input
			}
		}
	}
	var outPath string
	if v.outFile && v.linkCwd && !v.inPlace {
		// real/deep is the working directory, entered as link -> real/deep; "-o ../sib/out" means real/sib/out
		root := c.Scratch.Path("cwd")
		os.MkdirAll(filepath.Join(root, "real", "deep"), 0o755)
		os.MkdirAll(filepath.Join(root, "real", "sib"), 0o755)
		os.Symlink(filepath.Join(root, "real", "deep"), filepath.Join(root, "link"))
		opt.Dir = filepath.Join(root, "link")
		opt.Env = append(opt.Env, "PWD="+opt.Dir)
		outPath = filepath.Join(root, "real", "sib", outName)
		args = append(args, "-o", "../sib/"+outName)
		res := c.Crd.Run(opt, args...)
		c.Eval(1)
		out := res.Stdout
		if res.OK() {
			out = readFileOrNil(outPath)
		}
		return res.OK(), out, res
	}
	if v.outFile {
		outPath = c.Scratch.Path(outName)
		if v.inPlace && inFile != "" {
			outPath = inFile
		} else if v.prefill {
			os.WriteFile(outPath, bytes.Repeat([]byte("previous content of the output file\n"), 40000), 0o644)
		}
		args = append(args, "-o", outPath)
	}
	if v.outDev != "" && !v.outFile {
		args = append(args, "-o", v.outDev)
	}
	if v.appendIn && inFile != "" && !v.outFile && !v.outNull {
		opt.Redirect = ">>" + inFile
	}
	res := c.Crd.Run(opt, args...)
	c.Eval(1)
	out := res.Stdout
	if v.outFile && res.OK() {
		// a failing command has no result: whatever it left (or did not touch) at the -o path is not compared
		out = readFileOrNil(outPath)
	}
	if opt.Redirect != "" && strings.HasPrefix(opt.Redirect, ">>") {
		// what the file held before must still be there, the result follows it
		got := readFileOrNil(inFile)
		if bytes.HasPrefix(got, cl.input) {
			out = got[len(cl.input):]
		} else {
			out = append([]byte("(the input file was overwritten) "), got...)
		}
	}
	return res.OK(), out, res
}

func checkC12(c *core.Ctx) {
	c.Rule("every data-producing command (text parse, text conv degree|syllable, write, write event|parse|conv, info attr list|describe, info chord list|describe, info key list|describe|conv, gen attr, midi port in|out) x several inputs (also failing ones; ASTs of 5, 99, 100, 101 and 5,000 nodes around the iterator's channel capacity) is run repeatedly and with one dimension varied at a time and in random combinations: GOMAXPROCS 1/2/4/8/16, race-detector build, --debug, input by stdin / - / FILE, output by stdout / -o (fresh file and an existing longer file); " +
		"stdout (or the -o file) and success must equal the first run byte for byte; any `WARNING: DATA RACE` of the race build is a violation; in-process (race build of the worker): the channel iterator must yield exactly the document order under draining, early break, yielding and sleeping consumers without deadlock or leaked goroutines; " +
		"non-trivial = class in which >= 3 dimensions were varied and whose output has >= 64 bytes; distinct by class")
	c.Assume("byte equality", "Go race detector (reports races of the schedules that occurred)", "stderr is not compared")
	if c.CrdRace == "" {
		c.Inconclusive("race-detector build of crd is missing")
		return
	}

	r0 := c.RNG("classes", 0)
	var classes []detClass
	add := func(name string, args []string, input []byte, reads, writes bool) {
		classes = append(classes, detClass{name, args, input, reads, writes})
	}
	// chord texts of chosen sizes: a chord C[1] has 5 nodes (Chord, Degree, Values, Value) + list
	textOfNodes := func(chords int, bad string) []byte {
		var b strings.Builder
		for i := 0; i < chords; i++ {
			if bad == "first" && i == 0 || bad == "last" && i == chords-1 {
				b.WriteString("2[1] ")
				continue
			}
			b.WriteString("C[1] ")
		}
		return []byte(b.String())
	}
	texts := map[string][]byte{
		"small":        []byte("C[1] Am7/G[2]{txt=x,key=Am} R[1] F#_7[1,1/4]"),
		"n24":          textOfNodes(24, ""),
		"n25":          textOfNodes(25, ""),
		"n26":          textOfNodes(26, ""),
		"n1250":        textOfNodes(1250, ""),
		"bad-first":    textOfNodes(1250, "first"),
		"bad-last":     textOfNodes(1250, "last"),
		"bad-last-26":  textOfNodes(26, "last"),
		"syntax-error": []byte("C[1] D[2"),
		"random":       []byte(randomChordText(r0, 40, true)),
		"empty":        []byte(""),
	}
	// long pieces that change key every few chords (the converter carries the scale in force from chord to chord)
	{
		ks := theory.Supported()
		notes := []string{"C", "D", "E", "F", "G", "A", "B"}
		var b strings.Builder
		for i := 0; i < 2000; i++ {
			fmt.Fprintf(&b, "%s[1]", notes[r0.Intn(7)])
			if i%8 == 3 {
				fmt.Fprintf(&b, "{key=%s}", ks[r0.Intn(len(ks))])
			}
			b.WriteString(" ")
		}
		texts["n2000-keychanges"] = []byte(b.String())
		b.Reset()
		for i := 0; i < 1100; i++ {
			fmt.Fprintf(&b, "%d[1/2]", 1+r0.Intn(7))
			if i%5 == 0 {
				fmt.Fprintf(&b, "{key=%s,bpm=%d}", ks[r0.Intn(len(ks))], 60+r0.Intn(100))
			}
			b.WriteString("\n")
		}
		texts["n1100-degrees-keychanges"] = []byte(b.String())
	}
	// a byte order mark in front of the text means the same on every input path (today: a syntax error)
	// metadata keys that a sort with a non-total order (numeric-aware comparison with overflowing digit runs,
	// digits of other scripts) would print in run-dependent order
	texts["meta-keys"] = []byte("C[1]{9223372036854775808=x,1=y,90=z,٣=a,٤٤=b,18446744073709551616=c,007=d,7=e,0x7=f} D[1]{10=a,9=b,१०=c,९=d}")
	texts["bom"] = []byte("\ufeffC[1] Am7/G[2]{txt=x} R[1]")
	texts["bom-only"] = []byte("\ufeff")
	texts["crlf"] = []byte("C[1]\r\nAm7/G[2]{txt=x}\r\nR[1]\r\n")
	var textNames []string
	for n := range texts {
		textNames = append(textNames, n)
	}
	sort.Strings(textNames)
	for _, n := range textNames {
		t := texts[n]
		add("text parse/"+n, []string{"text", "parse"}, t, true, true)
		add("text conv syllable/"+n, []string{"text", "conv", "syllable", "--key", "D"}, t, true, true)
	}
	dp := model.RandPiece(r0, model.GenOpts{MinLen: 6, MaxLen: 10, RestProb: 0.2, SettingProb: 0.2, TextProb: 0.2, KeyChanges: true, BassProb: 0.5, MaxDeg: 7, SimpleOnly: true, TextSafe: true})
	if dt, ok := dp.DegreeTextPiece(model.TextOpts{}); ok {
		add("text conv degree/model", []string{"text", "conv", "degree"}, []byte(dt), true, true)
	}
	add("text conv degree/mixed", []string{"text", "conv", "degree"}, []byte("1[1] 2[1] C[1]"), true, true)
	for i := 0; i < 4; i++ {
		p := model.RandPiece(r0, model.GenOpts{MinLen: 3, MaxLen: 12, RestProb: 0.2, SettingProb: 0.3, TextProb: 0.4, KeyChanges: true, BassProb: 0.5, MaxDeg: 9})
		if !p.Effective(model.Flags{}).AllInRange() {
			continue
		}
		doc := p.YAML(model.YAMLStyle{})
		add(fmt.Sprintf("write/%d", i), []string{"write"}, doc, true, true)
		add(fmt.Sprintf("write --track 4/%d", i), []string{"write", "--track", "4"}, doc, true, true)
		add(fmt.Sprintf("write event/%d", i), []string{"write", "event"}, doc, true, true)
		add(fmt.Sprintf("write parse/%d", i), []string{"write", "parse"}, doc, true, true)
		add(fmt.Sprintf("write conv/%d", i), []string{"write", "conv", "-c", "cmt"}, doc, true, true)
	}
	if len(classes) > 0 {
		// the same documents behind a byte order mark / with CRLF line ends
		bp := model.RandPiece(r0, model.GenOpts{MinLen: 3, MaxLen: 6, RestProb: 0.2, SettingProb: 0.3, TextProb: 0.2, KeyChanges: true, MaxDeg: 7, SimpleOnly: true, TextSafe: true})
		doc := bp.YAML(model.YAMLStyle{})
		for _, cmd := range [][]string{{"write"}, {"write", "parse"}, {"write", "conv", "-c", "cmt"}} {
			add(strings.Join(cmd[:min(2, len(cmd))], " ")+"/bom", cmd, append([]byte("\ufeff"), doc...), true, true)
			add(strings.Join(cmd[:min(2, len(cmd))], " ")+"/crlf", cmd, bytes.ReplaceAll(doc, []byte("\n"), []byte("\r\n")), true, true)
		}
	}
	{
		doc := []byte("- chord: {degree: \"1\", name: \"\"}\n  values: [1]\n  meta: {\"9223372036854775808\": x, \"1\": y, \"90\": z, \"٣\": a, \"٤٤\": b, \"18446744073709551616\": c, \"007\": d}\n")
		add("write parse/meta-keys", []string{"write", "parse"}, doc, true, true)
		add("write conv/meta-keys", []string{"write", "conv", "-c", "cmt"}, doc, true, true)
	}
	// help texts are standard output too
	for _, h := range [][]string{{"--help"}, {"write", "--help"}, {"help", "write", "event"}, {"write", "conv", "--help"}, {"text", "conv", "--help"}, {"info", "key", "conv", "--help"}, {"gen", "attr", "--help"}} {
		add("help/"+strings.Join(h, " "), h, nil, false, false)
	}
	add("write/invalid", []string{"write"}, []byte("- chord: {degree: \"1\", name: \"nosuch\"}\n  values: [1]\n"), true, true)
	add("write event/no values", []string{"write", "event"}, []byte("- chord: {degree: \"1\", name: \"\"}\n"), true, true)
	add("info attr list", []string{"info", "attr", "list"}, nil, false, true)
	add("info chord list", []string{"info", "chord", "list"}, nil, false, true)
	add("info key list", []string{"info", "key", "list"}, nil, false, true)
	add("gen attr", []string{"gen", "attr", "-d", "30"}, nil, false, true)
	add("midi port in", []string{"midi", "port", "in"}, nil, false, true)
	add("midi port out", []string{"midi", "port", "out"}, nil, false, true)
	for _, a := range [][2]string{{"Minor7", "C#"}, {"Augmented11", "Fb"}, {"NoSuch", "C"}} {
		add("info attr describe/"+a[0], []string{"info", "attr", "describe", "-t", a[0], "-r", a[1]}, nil, false, true)
	}
	for _, t := range []string{"Ebm7", "F#_DominantNinth", "Cnosuch", "B♭maj7"} {
		add("info chord describe/"+t, []string{"info", "chord", "describe", "-t", t, "-s"}, nil, false, true)
	}
	for _, k := range []string{"C", "F#m", "Cb", "G#"} {
		add("info key describe/"+k, []string{"info", "key", "describe", "--key", k}, nil, false, true)
	}
	// every key x operation whose result has two spellings, and some chains
	for _, k := range theory.Supported() {
		for _, op := range []string{"p", "r", "d", "s", "dd", "ps", "rd"} {
			if res, _ := theory.Chain(k, op); len(res) > 1 {
				add("info key conv/"+k.String()+"/"+op, []string{"info", "key", "conv", "--key", k.String(), "-c", op}, nil, false, true)
			}
		}
	}
	add("info key conv/C/x", []string{"info", "key", "conv", "--key", "C", "-c", "x"}, nil, false, true)
	// user dictionaries: a chord taking over an existing display symbol, two user chords sharing a display,
	// attributes redefined - resolution must not depend on map order
	{
		af := c.Scratch.File("c12-attr.yml", attrsYAML([]userAttr{{Name: "Zq4", Degree: "4"}, {Name: "Zq7", Degree: "b7"}, {Name: "Major13", Degree: "13"}}))
		cf := c.Scratch.File("c12-chord.yml", chordsYAML([]userChord{
			{Name: "QuartalStack", Display: "m7", Attrs: []string{"Perfect1", "Zq4", "Zq7"}},
			{Name: "ZfirstX", Display: "zx", Attrs: []string{"Perfect1", "Zq4"}},
			{Name: "ZsecondX", Display: "zx", Attrs: []string{"Perfect1", "Zq7"}},
			{Name: "Zchild", Display: "zch", Extends: "zx", Attrs: []string{"Major13"}},
		}))
		doc := []byte("- chord: {degree: \"1\", name: \"m7\"}\n  values: [1]\n- chord: {degree: \"5\", name: \"zx\"}\n  values: [1]\n- chord: {degree: \"4\", name: \"zch\"}\n  values: [1]\n- chord: {degree: \"2\", name: \"MinorSeventh\"}\n  values: [1]\n")
		add("write/user-dict", []string{"write", "--chord", cf, "--attr", af}, doc, true, true)
		add("write event/user-dict", []string{"write", "event", "--chord", cf, "--attr", af}, doc, true, true)
		add("write parse/user-dict", []string{"write", "parse", "--chord", cf, "--attr", af}, doc, true, true)
		add("info chord describe/user-dict m7", []string{"info", "chord", "describe", "-t", "Cm7", "--chord", cf, "--attr", af}, nil, false, true)
		add("info chord describe/user-dict zx", []string{"info", "chord", "describe", "-t", "Czx", "--chord", cf, "--attr", af}, nil, false, true)
		add("info chord list/user-dict", []string{"info", "chord", "list", "--chord", cf, "--attr", af}, nil, false, true)
		add("info attr list/user-dict", []string{"info", "attr", "list", "--attr", af}, nil, false, true)
		// a chord that names an attribute it also inherits, and one that names an attribute twice
		df := c.Scratch.File("c12-dup.yml", chordsYAML([]userChord{
			{Name: "ZdupNinth", Display: "zd9", Extends: "DominantSeventh", Attrs: []string{"Minor7", "Major9", "Perfect5", "Major13"}},
			{Name: "ZdupTwice", Display: "zd2", Attrs: []string{"Perfect1", "Major3", "Major3", "Perfect5", "Perfect1", "Major7"}},
			{Name: "ZdupChild", Display: "zdc", Extends: "zd9", Attrs: []string{"Major9", "Augmented11", "Major3"}},
		}))
		ddoc := []byte("- chord: {degree: \"1\", name: \"zd9\"}\n  values: [1]\n- chord: {degree: \"4\", name: \"zd2\"}\n  values: [1]\n- chord: {degree: \"5\", name: \"zdc\"}\n  values: [1]\n")
		add("write/dup-attrs", []string{"write", "--chord", df}, ddoc, true, true)
		add("write event/dup-attrs", []string{"write", "event", "--track", "3", "--chord", df}, ddoc, true, true)
		add("info chord describe/dup-attrs zd9", []string{"info", "chord", "describe", "-t", "Czd9", "--chord", df}, nil, false, true)
		add("info chord describe/dup-attrs zdc", []string{"info", "chord", "describe", "-t", "F#zdc", "-s", "--chord", df}, nil, false, true)
		add("info chord list/dup-attrs", []string{"info", "chord", "list", "--chord", df}, nil, false, true)
		// several files that redefine the same names: the last file given wins, whatever order they finish loading in
		var cfs, afs []string
		for k := 0; k < 4; k++ {
			cfs = append(cfs, c.Scratch.File(fmt.Sprintf("multi-%c.yml", 'z'-k), chordsYAML([]userChord{
				{Name: "Zmulti", Display: "zmu", Attrs: []string{"Perfect1", fmt.Sprintf("Major%d", 2+k)}},
				{Name: fmt.Sprintf("Zonly%d", k), Display: fmt.Sprintf("zo%d", k), Attrs: []string{"Perfect1", "Zq4"}},
			})))
			afs = append(afs, c.Scratch.File(fmt.Sprintf("multi-attr-%c.yml", 'z'-k), attrsYAML([]userAttr{{Name: "Zq4", Degree: fmt.Sprint(4 + k)}, {Name: fmt.Sprintf("Zextra%d", k), Degree: "b3"}})))
		}
		multi := []string{}
		for k := range cfs {
			multi = append(multi, "--chord", cfs[k], "--attr", afs[k])
		}
		mdoc := []byte("- chord: {degree: \"1\", name: \"zmu\"}\n  values: [1]\n- chord: {degree: \"5\", name: \"zo2\"}\n  values: [1]\n")
		add("write/multi-dict", append([]string{"write"}, multi...), mdoc, true, true)
		add("write event/multi-dict", append([]string{"write", "event"}, multi...), mdoc, true, true)
		add("info chord list/multi-dict", append([]string{"info", "chord", "list"}, multi...), nil, false, true)
		add("info attr list/multi-dict", append([]string{"info", "attr", "list"}, multi...), nil, false, true)
		add("info chord describe/multi-dict", append([]string{"info", "chord", "describe", "-t", "Czmu"}, multi...), nil, false, true)
		add("info chord list/multi-dict-comma", []string{"info", "chord", "list", "--chord", strings.Join(cfs, ",")}, nil, false, true)
	}
	// empty documents: the same answer over a pipe, a FILE, - and with stdin at /dev/null
	add("write parse/empty", []string{"write", "parse"}, []byte(""), true, true)
	add("write conv/empty", []string{"write", "conv", "-c", "cmt"}, []byte(""), true, true)
	add("write/empty", []string{"write"}, []byte(""), true, true)
	c.Extra("classes", len(classes))

	reps := c.N(8, 40)
	combos := c.N(6, 40)
	c.Stream("class", len(classes), func(i int, r *rand.Rand) {
		cl := classes[i]
		ok0, out0, res0 := runClass(c, cl, runVariant{inPath: "stdin"})
		if res0.WallKill || res0.StartErr != nil {
			c.Inconclusive("watchdog/start failure for " + cl.name)
			return
		}
		if a := abnormal(res0); a != "" {
			c.Violate("class", i, "abnormal:"+cl.name, fmt.Sprintf("`crd %s` %s", strings.Join(cl.args, " "), a), obs(res0))
			return
		}
		var variants []runVariant
		base := runVariant{inPath: "stdin"}
		for k := 0; k < reps; k++ {
			variants = append(variants, base)
		}
		for _, p := range []int{1, 2, 4, 8, 16} {
			v := base
			v.procs = p
			variants = append(variants, v)
		}
		{
			v := base
			v.race = true
			variants = append(variants, v, v)
			v.procs = 1
			variants = append(variants, v)
			v.procs = 16
			variants = append(variants, v)
		}
		{
			v := base
			v.debug = true
			variants = append(variants, v)
		}
		if cl.reads && cl.input != nil {
			for _, ip := range []string{"dash", "file", "devstdin", "regular", "fileoffset", "socket", "dashfile"} {
				v := base
				v.inPath = ip
				variants = append(variants, v)
			}
		}
		if cl.writes {
			v := base
			v.outFile = true
			variants = append(variants, v)
			v.prefill = true
			variants = append(variants, v)
			if cl.reads && cl.input != nil {
				v.prefill = false
				v.inPath = "file"
				v.inPlace = true
				variants = append(variants, v)
			}
		}
		if cl.input == nil || len(cl.input) == 0 {
			v := base
			v.devNull = true
			variants = append(variants, v)
		}
		if cl.input != nil && len(cl.input) > 8 {
			for _, n := range []int{2, 5} {
				v := base
				v.pieces = n
				variants = append(variants, v)
				if cl.reads {
					v.inPath = "dash"
					variants = append(variants, v)
				}
			}
		}
		{
			v := base
			v.outNull = true
			variants = append(variants, v)
		}
		if cl.reads && cl.input != nil && i%4 == 0 {
			v := base
			v.late = true
			variants = append(variants, v)
		}
		if cl.writes {
			v := base
			v.outDev = []string{"/dev/stdout", "/dev/fd/1", "/proc/self/fd/1"}[i%3]
			variants = append(variants, v)
			v.outDev, v.outNull = "/dev/null", true
			variants = append(variants, v)
		}
		if cl.reads && cl.input != nil && len(cl.input) > 0 && oddNameSafe(cl.name) {
			v := base
			v.inPath, v.appendIn = "file", true
			variants = append(variants, v)
		}
		if cl.writes {
			v := base
			v.outFile, v.linkCwd = true, true
			variants = append(variants, v)
		}
		if cl.reads && cl.input != nil && cl.writes {
			v := base
			v.inPath = "file"
			v.oddName = true
			variants = append(variants, v)
			v.outFile = true
			variants = append(variants, v)
		}
		for k := 0; k < combos; k++ {
			v := runVariant{procs: []int{0, 1, 2, 4, 8, 16}[r.Intn(6)], race: r.Intn(4) == 0, debug: r.Intn(3) == 0, inPath: "stdin"}
			if cl.reads && cl.input != nil {
				v.inPath = []string{"stdin", "dash", "file", "devstdin", "regular", "fileoffset", "socket"}[r.Intn(7)]
			}
			if cl.writes {
				v.outFile = r.Intn(3) == 0
				v.prefill = v.outFile && r.Intn(2) == 0
			}
			v.oddName = r.Intn(4) == 0
			if (v.inPath == "stdin" || v.inPath == "dash") && cl.input != nil && r.Intn(4) == 0 {
				v.pieces = 2 + r.Intn(6)
			}
			variants = append(variants, v)
		}
		dims := map[string]bool{}
		debugDiffers := false
		for _, v := range variants {
			if v.debug && debugDiffers {
				// already reported for this class; the other dimensions are still judged on their own
				v.debug = false
			}
			ok, out, res := runClass(c, cl, v)
			if res.WallKill || res.StartErr != nil {
				c.Inconclusive("watchdog/start failure for " + cl.name)
				return
			}
			if v.race {
				c.Count("race_build_runs", 1)
				if n := bytes.Count(res.Stderr, []byte("WARNING: DATA RACE")); n > 0 {
					c.Violate("class", i, "race:"+cl.name, fmt.Sprintf("the race detector reports %d data race(s) in `crd %s` (%s)", n, strings.Join(cl.args, " "), v), obs(res))
					return
				}
			}
			if a := abnormal(res); a != "" {
				c.Violate("class", i, "abnormal:"+cl.name, fmt.Sprintf("`crd %s` (%s) %s", strings.Join(cl.args, " "), v, a), obs(res))
				return
			}
			if ok != ok0 {
				c.Violate("class", i, "success:"+cl.name+":"+variantDim(v), fmt.Sprintf("`crd %s`: first run succeeds=%v, run with %s succeeds=%v", strings.Join(cl.args, " "), ok0, v, ok), map[string]any{"first": obs(res0), "other": obs(res)})
				return
			}
			if v.outNull {
				dims["out"] = true
				continue
			}
			if !bytes.Equal(out, out0) {
				class := "bytes:" + cl.args[0] + " " + cl.args[min(1, len(cl.args)-1)]
				if len(cl.args) > 2 && (cl.args[0] == "info" || cl.args[1] == "conv") {
					class += " " + cl.args[2]
				}
				failing := ""
				if !ok0 {
					failing = ":failing-input"
				}
				c.Violate("class", i, class+":"+variantDim(v)+failing, fmt.Sprintf("`crd %s`: output differs between the first run and a run with %s: %s", strings.Join(cl.args, " "), v, firstLineDiff(out0, out)),
					map[string]any{"first": obs(res0), "other": obs(res), "class": cl.name})
				if v.debug {
					// a difference caused by --debug must not hide what the other dimensions do to this class
					debugDiffers = true
					continue
				}
				return
			}
			if v.procs > 0 {
				dims["procs"] = true
				c.Seen("gomaxprocs_seen", fmt.Sprint(v.procs))
			}
			if v.race {
				dims["race"] = true
			}
			if v.debug {
				dims["debug"] = true
			}
			if v.inPath != "stdin" {
				dims["in"] = true
			}
			if v.outFile {
				dims["out"] = true
			}
		}
		c.Seen("commands", strings.Join(cl.args[:min(3, len(cl.args))], " "))
		if len(dims) >= 3 && len(out0) >= 64 {
			c.Nontrivial(cl.name)
		}
		if c.WantSample() && len(out0) >= 64 {
			c.Sample(map[string]any{"class": cl.name, "argv": strings.Join(cl.args, " "), "runs": len(variants) + 1, "output_bytes": len(out0), "succeeds": ok0})
		}
	})

	// in-process iterator stress on the race build of the worker
	if c.Worker == "" {
		c.Extra("iterator_stress", "skipped: worker does not build against the current tree")
		return
	}
	nTrees := c.N(200, 5000)
	shards := 8
	c.Stream("iterator", shards*3, func(k int, r *rand.Rand) {
		procs := []int{1, 4, 16}[k/shards]
		var buf bytes.Buffer
		n := nTrees / shards
		for j := 0; j < n; j++ {
			chords := 1 + r.Intn(60)
			switch r.Intn(8) {
			case 0:
				chords = 20 + r.Intn(10) // around 100 nodes
			case 1:
				chords = 300 + r.Intn(300)
			}
			b, _ := json.Marshal(map[string]any{"i": j, "s": base64.StdEncoding.EncodeToString([]byte(randomChordText(r, chords, false)))})
			buf.Write(b)
			buf.WriteByte('\n')
		}
		res := c.Crd.Run(runner.Opt{Stdin: buf.Bytes(), Bin: c.Worker, CPUSec: 600, Env: []string{"GORACE=halt_on_error=0 atexit_sleep_ms=0", fmt.Sprintf("GOMAXPROCS=%d", procs)}}, "iter", "0", fmt.Sprint(c.Seed+int64(k)))
		if res.WallKill || res.StartErr != nil {
			c.Inconclusive("iterator worker watchdog/start failure")
			return
		}
		if nr := bytes.Count(res.Stderr, []byte("WARNING: DATA RACE")); nr > 0 {
			c.Violate("iterator", k, "iterator:race", fmt.Sprintf("the race detector reports %d data race(s) while iterating an AST through IterVisitor", nr), obs(res))
			return
		}
		sawSummary := false
		for _, ln := range bytes.Split(res.Stdout, []byte("\n")) {
			var o struct {
				I, Nodes, Goroutines         int
				Behaviour, Problem, Classify string
				Summary                      bool
				Sends, Full, Empty, Maxlen   int
			}
			if len(ln) == 0 || json.Unmarshal(ln, &o) != nil {
				continue
			}
			if o.Summary {
				sawSummary = true
				// what the hook in IterVisitor.send observed: both regimes (producer blocked on a full
				// channel, consumer waiting on an empty one) have to occur for the stress to mean anything
				c.Count("iterator_sends_observed", o.Sends)
				c.Count("producer_found_channel_full", o.Full)
				c.Count("producer_found_channel_empty", o.Empty)
				c.Extra(fmt.Sprintf("max_backlog_gomaxprocs_%d", procs), o.Maxlen)
				if o.Goroutines > 2 {
					c.Violate("iterator", k, "iterator:leak", fmt.Sprintf("%d goroutines alive after all iterations finished", o.Goroutines), nil)
				}
				continue
			}
			c.Eval(1)
			if o.Problem == "unparsable" {
				c.Inconclusive("harness: generated text not parsable in iterator stress")
				continue
			}
			if strings.HasPrefix(o.Problem, "inconclusive") {
				c.Inconclusive("iterator stress: " + o.Problem)
				return
			}
			if o.Problem != "" {
				c.Violate("iterator", k, "iterator:"+o.Behaviour+":"+short(o.Problem, 40), fmt.Sprintf("IterVisitor.All with a %s consumer on a tree of %d nodes (GOMAXPROCS=%d): %s", o.Behaviour, o.Nodes, procs, o.Problem), nil)
				return
			}
			c.Count("iterations_checked", 1)
			if o.Nodes > 100 {
				c.Nontrivial(fmt.Sprintf("iter:%d:%d:%s", k, o.I, o.Behaviour))
			}
		}
		if a := abnormal(res); a != "" || !res.OK() || !sawSummary {
			c.Violate("iterator", k, "iterator:worker", fmt.Sprintf("iterator stress %s (exit %d) at case %q", a, res.Exit, lastCase(res)), obs(res))
		}
	})
}

// oddNameSafe: every reading class may have its output appended to its input file.
func oddNameSafe(string) bool { return true }

func variantDim(v runVariant) string {
	var d []string
	if v.procs > 0 {
		d = append(d, "procs")
	}
	if v.race {
		d = append(d, "race")
	}
	if v.debug {
		d = append(d, "debug")
	}
	if v.inPath != "stdin" {
		d = append(d, "in")
	}
	if v.outFile || v.outNull {
		d = append(d, "out")
	}
	if v.pieces > 1 {
		d = append(d, "pieces")
	}
	if v.oddName {
		d = append(d, "names")
	}
	if v.late {
		d = append(d, "late")
	}
	if v.outDev != "" {
		d = append(d, "odev")
	}
	if v.appendIn {
		d = append(d, "append")
	}
	if len(d) == 0 {
		return "repeat"
	}
	return strings.Join(d, "+")
}
