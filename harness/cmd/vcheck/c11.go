package main

import (
	"bytes"
	"fmt"
	"math/rand"
	"strings"

	"verif/core"
	"verif/grammar"
	"verif/model"
	"verif/runner"
)

func init() { register("C11", checkC11) }

// normTokens maps a token list to its meaning-bearing form: underscores dropped,
// numbers without leading zeros, accidentals as # / b.
func normTokens(t []grammar.Token) []grammar.Token {
	var out []grammar.Token
	for _, x := range t {
		switch x.Kind {
		case "UNDERSCORE":
			continue
		case "NUMBER":
			v := strings.TrimLeft(x.Val, "0")
			if v == "" {
				v = "0"
			}
			out = append(out, grammar.Token{Kind: x.Kind, Val: v})
		case "SHARP":
			out = append(out, grammar.Token{Kind: x.Kind, Val: "#"})
		case "FLAT":
			out = append(out, grammar.Token{Kind: x.Kind, Val: "b"})
		default:
			out = append(out, x)
		}
	}
	return out
}

// variantOf rewrites equivalent token spellings and re-joins with trivia.
// features records which kinds of variation were applied.
func variantOf(base []grammar.Token, r *rand.Rand, features map[string]bool) string {
	var t []grammar.Token
	inValues := false
	for i, x := range base {
		switch x.Kind {
		case "LBRA":
			inValues = true
		case "RBRA":
			inValues = false
		}
		switch x.Kind {
		case "NUMBER":
			if r.Intn(3) == 0 {
				n := 1 + r.Intn(3)
				if r.Intn(6) == 0 {
					n = 18 + r.Intn(30) // far more digits than any 64-bit number has
				}
				x.Val = strings.Repeat("0", n) + x.Val
				features["leading-zero"] = true
			}
		case "SHARP":
			if r.Intn(2) == 0 {
				x.Val = "♯"
				features["unicode"] = true
			}
		case "FLAT":
			if r.Intn(2) == 0 {
				x.Val = "♭"
				features["unicode"] = true
			}
		case "SYMBOL":
			if (i == 0 || base[i-1].Kind != "UNDERSCORE") && r.Intn(2) == 0 {
				t = append(t, grammar.Token{Kind: "UNDERSCORE", Val: "_"})
				features["underscore"] = true
			}
		}
		_ = inValues
		t = append(t, x)
	}
	for try := 0; try < 8; try++ {
		s := joinTokens(t, r, true)
		if r.Intn(4) == 0 {
			s = strings.ReplaceAll(s, "\n", "\r\n")
		}
		got := grammar.Tokenize([]byte(s))
		if !got.LexErr && sameTokens(normTokens(got.Tokens), normTokens(base)) {
			if strings.Contains(s, ";") {
				features["comment"] = true
			}
			return s
		}
	}
	return joinTokens(t, nil, false)
}

func checkC11(c *core.Ctx) {
	nv := c.N(8, 40)
	c.Rule(fmt.Sprintf("base chord texts rendered from the piece model in degree notation and in note names (any key), each with %d equivalent spellings: blanks/tabs/newlines/CRLF/`;` comments at any token boundary in normal mode (also leading, trailing, comment at end of input with and without newline), blanks after `_` and before {} keys and values, `_` before symbols that do not need it, leading zeros on every number, # and b replaced by the Unicode signs; "+
		"comments without text, and megabytes of comments/blank lines between the chords (`huge`); every variant is verified by the reference tokenizer to carry the same tokens; `text conv` must print the same bytes and succeed equally for all members of a class; non-trivial = class with >= 3 distinct texts, one with a comment and one with a Unicode accidental; distinct by base text", nv))
	c.Assume("grammar.Tokenize (documented tokenisation) decides which spellings are equivalent", "byte equality of stdout")

	c.Stream("class", c.N(1200, 12000), func(i int, r *rand.Rand) {
		syllable := i%2 == 0
		p := model.RandPiece(r, model.GenOpts{MinLen: 1, MaxLen: 8, RestProb: 0.2, SettingProb: 0.15, TextProb: 0.2, KeyChanges: syllable || r.Intn(2) == 0, BassProb: 0.5, MaxDeg: 13, SimpleOnly: true, TextSafe: true})
		// altered roots so that accidentals occur
		var base string
		var args []string
		ok := false
		key := "C"
		degreeTwin := ""
		if syllable {
			key = model.RandKey(r)
			if i%4 == 0 {
				// one modulation between two keys of the same letter and mode that differ in the accidental only (F -> F#)
				sib := [][2]string{{"C", "C#"}, {"C", "Cb"}, {"C#", "Cb"}, {"D", "Db"}, {"E", "Eb"}, {"F", "F#"}, {"G", "Gb"}, {"A", "Ab"}, {"B", "Bb"}, {"C#m", "Cm"}, {"D#m", "Dm"}, {"Ebm", "Em"}, {"F#m", "Fm"}, {"G#m", "Gm"}, {"Bbm", "Bm"}}[r.Intn(15)]
				a, b := sib[0], sib[1]
				if r.Intn(2) == 0 {
					a, b = b, a
				}
				key = a
				for j := range p.Inst {
					p.Inst[j].Key = ""
				}
				p.Inst[len(p.Inst)/2].Key = b
			}
			base, ok = p.SyllableTextPiece(key, model.TextOpts{})
			args = []string{"text", "conv", "syllable", "--key", key}
			// the same piece in degree numbers: what the note names have to mean ("an accidental that is accepted is
			// honoured", also the accidental of a key written in braces, on a chord or on a rest)
			simple := true
			for _, in := range p.Inst {
				if ch := in.Chord; ch != nil && (ch.Deg.N > 7 || (ch.Bass != nil && ch.Bass.N > 7)) {
					simple = false // note names cannot say "an octave higher"
				}
			}
			if simple {
				degreeTwin, _ = p.DegreeTextPiece(model.TextOpts{})
			}
		} else {
			base, ok = p.DegreeTextPiece(model.TextOpts{})
			args = []string{"text", "conv", "degree"}
		}
		if !ok {
			c.Count("skipped_inexpressible", 1)
			return
		}
		bt := grammar.Tokenize([]byte(base))
		if bt.LexErr {
			c.Inconclusive("harness: base text does not tokenise: " + base)
			return
		}
		// a third of the classes use symbols outside the dictionary (text conv does not look symbols up): other
		// scripts' digits and letters, signs - everything that lexes as a symbol without needing `_`
		if i%3 == 1 {
			toks := append([]grammar.Token(nil), bt.Tokens...)
			for k := range toks {
				if toks[k].Kind == "SYMBOL" && (k == 0 || toks[k-1].Kind != "UNDERSCORE") && r.Intn(2) == 0 {
					toks[k].Val = bareSymbols[r.Intn(len(bareSymbols))]
				}
			}
			if cand := joinTokens(toks, nil, false); sameTokens(grammar.Tokenize([]byte(cand)).Tokens, toks) {
				base, bt = cand, grammar.Tokenize([]byte(cand))
			}
		}
		ref := run(c, []byte(base), args...)
		c.Eval(1)
		if infra(c, ref) {
			return
		}
		if a := abnormal(ref); a != "" {
			c.Violate("class", i, fmt.Sprintf("class#%d:abnormal", i), "text conv "+a+" on "+qs([]byte(base)), obs(ref))
			return
		}
		// members with very long physical lines: one comment line of several KiB in front, between and behind
		longLine := ""
		if i%4 == 2 {
			longLine = ";" + strings.Repeat([]string{"-", "= ruler ", "C[1] D[1] ", "♭x"}[r.Intn(4)], 600+r.Intn(2500)) + "\n"
		}
		if degreeTwin != "" && ref.OK() && i%3 != 1 {
			tw := run(c, []byte(degreeTwin), "text", "conv", "degree")
			c.Eval(1)
			if infra(c, tw) {
				return
			}
			if tw.OK() && !bytes.Equal(tw.Stdout, ref.Stdout) {
				c.Violate("class", i, "honoured", fmt.Sprintf("%s in %s does not convert to the instances of the same piece written in degrees %s: %s", qs([]byte(base)), key, qs([]byte(degreeTwin)), firstLineDiff(tw.Stdout, ref.Stdout)), map[string]any{"note_names": obs(ref), "degrees": obs(tw)})
				return
			}
		}
		texts := map[string]bool{base: true}
		features := map[string]bool{}
		for v := 0; v < nv; v++ {
			f := map[string]bool{}
			vt := variantOf(bt.Tokens, r, f)
			if longLine != "" {
				switch v % 3 {
				case 0:
					vt = longLine + vt
				case 1:
					vt = vt + "\n" + longLine
				default:
					// the whole piece on one physical line behind a long run of blanks
					if one := strings.Repeat(" \t", 2100+r.Intn(500)) + joinTokens(bt.Tokens, nil, false); sameTokens(normTokens(grammar.Tokenize([]byte(one)).Tokens), normTokens(bt.Tokens)) {
						vt = one
					}
				}
				if tr := grammar.Tokenize([]byte(vt)); tr.LexErr || !sameTokens(normTokens(tr.Tokens), normTokens(bt.Tokens)) {
					continue
				}
				f["long-line"] = true
			}
			if texts[vt] {
				continue
			}
			texts[vt] = true
			vargs := args
			if v%5 == 3 && ref.OK() {
				// --debug adds log lines on stderr and nothing else
				vargs = append(append([]string{}, args...), "--debug")
				f["debug"] = true
			}
			var got *runner.Result
			if v == 1 && i%3 == 0 {
				// one member is typed on a terminal, an empty (or blank) line after every chord: the text ends at the
				// end-of-file key, not at an empty line
				typed := joinTokensSep(bt.Tokens, []string{"\n\n", "\n \n", "\n\n\n"}[i/3%3]) + "\n"
				if tr := grammar.Tokenize([]byte(typed)); !tr.LexErr && sameTokens(normTokens(tr.Tokens), normTokens(bt.Tokens)) && runner.PtyTypable([]byte(typed)) && !texts[typed] {
					delete(texts, vt)
					vt = typed
					texts[vt] = true
					got = c.Crd.Run(runner.Opt{Stdin: []byte(vt), StdinKind: "pty"}, vargs...)
					f["typed"] = true
				}
			}
			if got == nil {
				got = run(c, []byte(vt), vargs...)
			}
			c.Eval(1)
			if infra(c, got) {
				return
			}
			feat := featureList(f)
			if a := abnormal(got); a != "" {
				c.Violate("class", i, "variant:abnormal:"+feat, fmt.Sprintf("text conv %s on the variant %s of %s", a, qs([]byte(vt)), qs([]byte(base))), obs(got))
				return
			}
			if got.OK() != ref.OK() {
				c.Violate("class", i, "variant:success:"+feat, fmt.Sprintf("%s succeeds=%v but its respelling %s succeeds=%v (variation: %s)", qs([]byte(base)), ref.OK(), qs([]byte(vt)), got.OK(), feat),
					map[string]any{"base": obs(ref), "variant": obs(got)})
				return
			}
			if !bytes.Equal(got.Stdout, ref.Stdout) {
				c.Violate("class", i, "variant:bytes:"+feat, fmt.Sprintf("%s and its respelling %s convert differently (variation: %s): %s", qs([]byte(base)), qs([]byte(vt)), feat, firstLineDiff(ref.Stdout, got.Stdout)),
					map[string]any{"base": obs(ref), "variant": obs(got)})
				return
			}
			for k := range f {
				features[k] = true
				c.Seen("variations", k)
			}
		}
		if ref.OK() {
			c.Count("classes_converting", 1)
		} else {
			c.Count("classes_failing", 1)
		}
		if len(texts) >= 3 && features["comment"] && features["unicode"] {
			c.Nontrivial(base)
		}
		if c.WantSample() {
			var l []string
			for t := range texts {
				l = append(l, short(t, 200))
				if len(l) == 3 {
					break
				}
			}
			c.Sample(map[string]any{"args": strings.Join(args, " "), "spellings": l})
		}
	})

	// a Unicode accidental sign that straddles a 4096-byte boundary of the input: comment lines in front put the
	// first sign of the text at byte 4094 or 4095 (mod 4096); same bytes as the text without the padding
	c.Stream("boundary", c.N(150, 3000), func(i int, r *rand.Rand) {
		syllable := i%2 == 0
		p := model.RandPiece(r, model.GenOpts{MinLen: 1, MaxLen: 4, RestProb: 0.1, SettingProb: 0.1, KeyChanges: syllable, BassProb: 0.6, MaxDeg: 7, SimpleOnly: true, TextSafe: true})
		var base string
		var args []string
		ok := false
		if syllable {
			key := model.RandKey(r)
			base, ok = p.SyllableTextPiece(key, model.TextOpts{UnicodeAcc: true})
			args = []string{"text", "conv", "syllable", "--key", key}
		} else {
			base, ok = p.DegreeTextPiece(model.TextOpts{UnicodeAcc: true})
			args = []string{"text", "conv", "degree"}
		}
		idx := strings.IndexAny(base, "♯♭")
		if !ok || idx < 0 {
			return
		}
		target := 4096*(1+i%3) - 1 - (i/2)%2 - idx
		var h strings.Builder
		for h.Len() < target {
			n := min(target-h.Len(), 90)
			if rest := target - h.Len() - n; rest == 1 {
				n--
			}
			h.WriteString(";" + strings.Repeat("~", n-2) + "\n")
		}
		padded := h.String() + base
		ref := run(c, []byte(base), args...)
		var got *runner.Result
		switch i % 3 {
		case 0:
			got = run(c, []byte(padded), args...)
		case 1:
			got = run(c, nil, append(append([]string{}, args...), c.Scratch.File("pad.txt", []byte(padded)))...)
		default:
			got = c.Crd.Run(runner.Opt{Stdin: []byte(padded), StdinKind: "file"}, args...)
		}
		c.Eval(2)
		if infra(c, ref) || infra(c, got) {
			return
		}
		if a := abnormal(got); a != "" {
			c.Violate("boundary", i, "boundary:abnormal", "text conv "+a, obs(got))
			return
		}
		if got.OK() != ref.OK() || !bytes.Equal(got.Stdout, ref.Stdout) {
			c.Violate("boundary", i, "boundary:bytes", fmt.Sprintf("%s converts differently when %d bytes of comment lines in front of it put its first accidental sign across a 4096-byte boundary: %s", qs([]byte(base)), h.Len(), firstLineDiff(ref.Stdout, got.Stdout)), map[string]any{"base": obs(ref), "padded_stderr": short(string(got.Stderr), 300)})
			return
		}
		c.Seen("variations", "sign-across-buffer-boundary")
		if ref.OK() {
			c.Nontrivial(fmt.Sprintf("boundary%d", i))
		}
	})

	// trivia far beyond any buffer size: megabytes of comments, blank lines and indentation between the chords
	c.Stream("huge", c.N(4, 16), func(i int, r *rand.Rand) {
		chords := []string{"C[1]", "Dm7/A[1,1/2]{lic=la}", "R[2]", "G_7[4]{key=G}", "Em[1/3]", "F#dim7/A[2]", "Bb[1]{mrk=end}"}
		args := []string{"text", "conv", "syllable"}
		if i%2 == 1 {
			chords = []string{"1[1]", "2m7/5[1,1/2]{lic=la}", "R[2]", "5_7[4]{bpm=90}", "3m[1/3]", "4#dim7/3[2]", "7b[1]{mrk=end}"}
			args = []string{"text", "conv", "degree"}
		}
		base := strings.Join(chords, " ")
		fill := []string{";" + strings.Repeat("padding ", 15) + "\n", "\n\t  \n", "      \t", ";\n", "; C[1] D[1] {x=y}\n"}
		var b bytes.Buffer
		size := []int{1200000, 2300000, 1048576 + 4096, 3200000}[i%4]
		for k, ch := range chords {
			if k > 0 {
				b.WriteString("\n")
				for b.Len() < size*k/(len(chords)-1) {
					b.WriteString(fill[r.Intn(len(fill))])
				}
				b.WriteString("\n")
			}
			b.WriteString(ch)
		}
		b.WriteString(" ;the end")
		big := b.Bytes()
		if tr := grammar.Tokenize(big); tr.LexErr || !sameTokens(normTokens(tr.Tokens), normTokens(grammar.Tokenize([]byte(base)).Tokens)) {
			c.Inconclusive("harness: huge variant does not carry the tokens of its base")
			return
		}
		ref := run(c, []byte(base), args...)
		var got *runner.Result
		if i%4 < 2 {
			got = runCPU(c, 300, big, args...)
		} else {
			got = runCPU(c, 300, nil, append(append([]string{}, args...), c.Scratch.File("huge.txt", big))...)
		}
		c.Eval(2)
		if infra(c, ref) || infra(c, got) {
			return
		}
		if a := abnormal(got); a != "" {
			c.Violate("huge", i, "huge:abnormal", fmt.Sprintf("text conv %s on a %d byte respelling of %s", a, len(big), qs([]byte(base))), obs(got))
			return
		}
		if !ref.OK() || got.OK() != ref.OK() || !bytes.Equal(got.Stdout, ref.Stdout) {
			c.Violate("huge", i, "huge:bytes", fmt.Sprintf("%s (ok=%v) and its %d byte respelling with comments and blank lines between the chords (ok=%v) convert differently: %s", qs([]byte(base)), ref.OK(), len(big), got.OK(), firstLineDiff(ref.Stdout, got.Stdout)),
				map[string]any{"base": obs(ref), "variant_stderr": short(string(got.Stderr), 400)})
			return
		}
		c.Seen("variations", "megabytes-of-trivia")
		c.Nontrivial(fmt.Sprintf("huge%d", i))
	})
}

func featureList(f map[string]bool) string {
	var l []string
	for _, k := range []string{"comment", "leading-zero", "underscore", "unicode", "long-line", "debug", "typed"} {
		if f[k] {
			l = append(l, k)
		}
	}
	if len(l) == 0 {
		return "trivia"
	}
	return strings.Join(l, "+")
}

func firstLineDiff(a, b []byte) string {
	la, lb := strings.Split(string(a), "\n"), strings.Split(string(b), "\n")
	for i := 0; i < len(la) || i < len(lb); i++ {
		x, y := "", ""
		if i < len(la) {
			x = la[i]
		}
		if i < len(lb) {
			y = lb[i]
		}
		if x != y {
			return fmt.Sprintf("line %d: %q vs %q", i+1, x, y)
		}
	}
	return "identical"
}
