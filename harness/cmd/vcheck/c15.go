package main

import (
	"bufio"
	"bytes"
	"encoding/json"
	"fmt"
	"math/big"
	"math/rand"
	"regexp"
	"sort"
	"strings"

	"verif/core"
	"verif/runner"
	"verif/theory"
)

func init() { register("C15", checkC15) }

// runWorker runs the in-process worker and returns its JSON lines.
func runWorker(c *core.Ctx, stdin []byte, cpu int, args ...string) (*runner.Result, [][]byte) {
	if stdin == nil {
		stdin = []byte{}
	}
	r := c.Crd.Run(runner.Opt{Stdin: stdin, Bin: c.Worker, CPUSec: cpu, Env: []string{"GORACE=halt_on_error=0 atexit_sleep_ms=0"}}, args...)
	var lines [][]byte
	sc := bufio.NewScanner(bytes.NewReader(r.Stdout))
	sc.Buffer(make([]byte, 1<<20), 1<<26)
	for sc.Scan() {
		lines = append(lines, append([]byte(nil), sc.Bytes()...))
	}
	return r, lines
}

// lastCase extracts the last announced case id from a worker's stderr.
func lastCase(r *runner.Result) string {
	idx := bytes.LastIndex(r.Stderr, []byte("CASE "))
	if idx < 0 {
		return ""
	}
	rest := r.Stderr[idx+5:]
	if nl := bytes.IndexByte(rest, '\n'); nl >= 0 {
		rest = rest[:nl]
	}
	return string(rest)
}

// describedNoteProblems checks one AttributeInfo mapping against root + interval.
func describedNoteProblems(m map[string]any, root theory.Note, sharp bool) []string {
	var probs []string
	at, _ := m["attribute"].(map[string]any)
	iv, err := theory.ParseNotation(asStr(at["degree"]))
	if err != nil {
		return []string{fmt.Sprintf("attribute degree %q unreadable", asStr(at["degree"]))}
	}
	size, ok := theory.Size(iv.N, iv.Q)
	if !ok {
		return []string{fmt.Sprintf("attribute degree %q is not an interval", asStr(at["degree"]))}
	}
	semi, ok1 := asInt(m["semitone"])
	swo, ok2 := asInt(m["semitone_without_octave"])
	oct, ok3 := asInt(m["octave_diff"])
	if !ok1 || !ok2 || !ok3 {
		return []string{"numeric fields unreadable"}
	}
	if semi != size {
		probs = append(probs, fmt.Sprintf("semitone %d, the interval %s measures %d", semi, iv, size))
	}
	if want := ((size % 12) + 12) % 12; swo != want {
		probs = append(probs, fmt.Sprintf("semitone_without_octave %d, expected %d", swo, want))
	}
	if asStr(m["root"]) != root.String() {
		probs = append(probs, fmt.Sprintf("root reported as %q, asked for %s", asStr(m["root"]), root))
	}
	ap, err := theory.ParseNote(asStr(m["applied"]))
	if err != nil {
		return append(probs, fmt.Sprintf("applied note %q unreadable", asStr(m["applied"])))
	}
	total := root.Pitch() + size
	if got := ap.Pitch() + 12*oct; got != total {
		probs = append(probs, fmt.Sprintf("applied %s with octave_diff %d is pitch %d, root + interval is %d", ap, oct, got, total))
	}
	pc := ((total % 12) + 12) % 12
	naturalExists := false
	for _, l := range theory.Letters {
		if (theory.Note{Letter: l}).Pitch() == pc {
			naturalExists = true
		}
	}
	switch {
	case naturalExists && ap.Acc != 0:
		probs = append(probs, fmt.Sprintf("applied note spelled %s although a natural exists", ap))
	case !naturalExists && sharp && ap.Acc != 1:
		probs = append(probs, fmt.Sprintf("applied note spelled %s, a sharp spelling was requested", ap))
	case !naturalExists && !sharp && ap.Acc != -1:
		probs = append(probs, fmt.Sprintf("applied note spelled %s, a flat spelling is the default", ap))
	}
	return probs
}

func checkC15(c *core.Ctx) {
	maxLen := c.N(5, 6)
	c.Rule(fmt.Sprintf("library level (in-process worker linking note.Degree): numbers 0..300 x 7 qualities exhaustively - existence, size, String/ParseDegree and YAML round trip - and every string over {b,#,0-9} up to length %d; "+
		"CLI: `info attr describe` for 21 roots x every built-in attribute x both accidental preferences, `info chord describe` for 21 roots x 46 dictionary keys x 2, and a generated dictionary naming all intervals up to 64 (incl. doubly altered) described from 21 roots; "+
		"sizes from the textbook formula, applied note = root + interval as pitch, natural-first spelling; non-trivial = existing interval other than a perfect unison whose size and round trip were compared, or a described note with an accidental or an octave offset; distinct by case", maxLen))
	c.Assume("theory.Size/Exists (formula of the property statement)", "theory.ParseNotation for canonical notation", "yaml.v3 as reader")
	c.Exhaustive(!c.Quick()) // quick samples the describe runs; numbers 0..64 x 7 qualities are complete in both tiers

	// ---------- library level
	if c.Worker == "" {
		c.Extra("library_level", "skipped: worker does not build against the current tree")
	} else {
		c.StreamSeq("degrees", 1, func(_ int, _ *rand.Rand) {
			r, lines := runWorker(c, nil, 60, "degrees", "300")
			if infra(c, r) {
				return
			}
			if a := abnormal(r); a != "" || !r.OK() {
				c.Violate("degrees", 0, "degrees:worker", fmt.Sprintf("note.NewDegree/Semitone/ParseDegree %s at case %q", a, lastCase(r)), obs(r))
				return
			}
			for _, ln := range lines {
				var d struct {
					N, Q, Semi, PN, PQ, YN, YQ          int
					OK                                  bool
					Str, ParseErr, YAMLErr, YAML, Panic string
				}
				if json.Unmarshal(ln, &d) != nil {
					continue
				}
				c.Eval(1)
				q := theory.Qualities[d.Q]
				sig := fmt.Sprintf("degree:%s%d", q, d.N)
				if d.Panic != "" {
					c.Violate("degrees", 0, sig+":panic", fmt.Sprintf("NewDegree(%d,%s) panics: %s", d.N, q, d.Panic), nil)
					continue
				}
				want, exists := theory.Size(d.N, q)
				if d.OK != exists {
					c.Violate("degrees", 0, sig+":exists", fmt.Sprintf("NewDegree(%d,%s) ok=%v, the interval exists=%v", d.N, q, d.OK, exists), nil)
					continue
				}
				if !exists {
					c.Count("impossible_rejected", 1)
					continue
				}
				if d.Semi != want {
					c.Violate("degrees", 0, sig+":size", fmt.Sprintf("%s %d measures %d semitones, theory says %d", q, d.N, d.Semi, want), nil)
					continue
				}
				if d.ParseErr != "" || d.PN != d.N || d.PQ != d.Q {
					c.Violate("degrees", 0, sig+":roundtrip", fmt.Sprintf("%s %d prints as %q which parses back as (%d,%d) err=%q", q, d.N, d.Str, d.PN, d.PQ, d.ParseErr), nil)
					continue
				}
				if d.YAMLErr != "" || d.YN != d.N || d.YQ != d.Q {
					c.Violate("degrees", 0, sig+":yaml", fmt.Sprintf("%s %d marshals to %q which unmarshals as (%d,%d) err=%q", q, d.N, d.YAML, d.YN, d.YQ, d.YAMLErr), nil)
					continue
				}
				// the printed notation denotes the same interval for an independent reader
				if iv, err := theory.ParseNotation(d.Str); err != nil || iv.N != d.N || iv.Q != q {
					c.Violate("degrees", 0, sig+":notation", fmt.Sprintf("%s %d prints as %q, which reads as %v (%v)", q, d.N, d.Str, iv, err), nil)
					continue
				}
				if !(d.N == 1 && q == theory.Perfect) {
					c.Nontrivial(sig)
				}
			}
		})
		shards := 16
		c.Stream("strings", shards, func(sh int, _ *rand.Rand) {
			r, lines := runWorker(c, nil, 120, "parsestrings", "b#0123456789MmPAd", fmt.Sprint(maxLen), fmt.Sprint(sh), fmt.Sprint(shards))
			if infra(c, r) {
				return
			}
			if a := abnormal(r); a != "" || !r.OK() {
				c.Violate("strings", sh, "strings:worker", "note.ParseDegree "+a, obs(r))
				return
			}
			for _, ln := range lines {
				var d struct {
					S, Str, Panic   string
					N, Q, Semi      int
					Stable, Summary bool
					Total, Accepted int
				}
				if json.Unmarshal(ln, &d) != nil {
					continue
				}
				if d.Summary {
					c.Eval(d.Total)
					c.Count("notation_strings_accepted", d.Accepted)
					continue
				}
				sig := "string:" + d.S
				if d.Panic != "" {
					c.Violate("strings", sh, sig+":panic", fmt.Sprintf("ParseDegree(%q) panics: %s", d.S, d.Panic), nil)
					continue
				}
				if d.Q < 0 || d.Q >= len(theory.Qualities) {
					c.Violate("strings", sh, sig+":quality", fmt.Sprintf("ParseDegree(%q) returns an unknown quality", d.S), nil)
					continue
				}
				q := theory.Qualities[d.Q]
				want, exists := theory.Size(d.N, q)
				if !exists || want != d.Semi {
					c.Violate("strings", sh, sig+":invalid", fmt.Sprintf("ParseDegree(%q) returns %s %d (size %d) which theory does not know (exists=%v size=%d)", d.S, q, d.N, d.Semi, exists, want), nil)
					continue
				}
				if !d.Stable {
					c.Violate("strings", sh, sig+":unstable", fmt.Sprintf("ParseDegree(%q) = %q does not parse back to itself", d.S, d.Str), nil)
					continue
				}
				// the notation: a number with at most one mark (b, bb, bbb, #, ##) in front of it or behind it
				canon := d.S
				if m := notationSuffix.FindStringSubmatch(d.S); m != nil {
					canon = m[2] + m[1]
				}
				iv, err := theory.ParseNotation(canon)
				if err != nil {
					c.Violate("strings", sh, sig+":not-notation", fmt.Sprintf("%q is not the notation of any interval (surplus or mixed marks) but ParseDegree reads it as %s %d", d.S, q, d.N), nil)
					continue
				}
				if iv.N != d.N || iv.Q != q {
					c.Violate("strings", sh, sig+":meaning", fmt.Sprintf("notation %q denotes %v but parses as %s %d", d.S, iv, q, d.N), nil)
					continue
				}
				c.Nontrivial(sig)
			}
		})
		// canonical strings that must be accepted: checked from the other side
		c.StreamSeq("canonical", 1, func(_ int, _ *rand.Rand) {
			// the degrees stream already proves String() of every existing interval parses; nothing more to run
		})
	}

	// ---------- CLI level: info attr describe
	roots := theory.AllSpellings()
	la := run(c, nil, "info", "attr", "list")
	c.Eval(1)
	var attrs []string
	if la.OK() {
		if li, err := yamlList(la.Stdout); err == nil {
			for _, e := range li {
				m, _ := e.(map[string]any)
				attrs = append(attrs, asStr(m["name"]))
			}
		}
	}
	if len(attrs) == 0 && c.OnlyStream == "" {
		c.Violate("attr", 0, "attr:list", "info attr list gives no attributes", obs(la))
		return
	}
	totalA := len(roots) * len(attrs) * 2
	nA := totalA
	if c.Quick() {
		nA = 700
	}
	c.Extra("attr_describe_space", totalA)
	c.Stream("attr", nA, func(i int, r *rand.Rand) {
		j := i
		if c.Quick() {
			j = r.Intn(totalA)
		}
		root := roots[j%len(roots)]
		at := attrs[(j/len(roots))%len(attrs)]
		sharp := j/(len(roots)*len(attrs)) == 1
		rootArg := root.String()
		if j%5 == 2 && root.Acc != 0 {
			// the unicode signs are accepted wherever a note is written
			rootArg = string(root.Letter) + map[int]string{1: "♯", -1: "♭"}[root.Acc]
		}
		args := []string{"info", "attr", "describe", "-t", at, "-r", rootArg}
		// every spelling of the boolean preference
		if sharp {
			args = append(args, []string{"-s", "--precedeSharp", "--precedeSharp=true", "-s=true", "-s=1"}[j%5])
		} else if j%3 == 0 {
			args = append(args, []string{"--precedeSharp=false", "-s=false", "-s=0"}[(j/3)%3])
		}
		res := run(c, nil, args...)
		c.Eval(1)
		if infra(c, res) {
			return
		}
		sig := fmt.Sprintf("attr:%s:%s:s=%v", at, root, sharp)
		if a := abnormal(res); a != "" || !res.OK() {
			c.Violate("attr", i, sig+":failed", "info attr describe fails "+a, obs(res))
			return
		}
		m, err := yamlMap(res.Stdout)
		if err != nil {
			c.Violate("attr", i, sig+":yaml", err.Error(), obs(res))
			return
		}
		if iv, ok := theory.AttributeInterval(at); ok {
			if want, _ := theory.Size(iv.N, iv.Q); want != mustInt(m["semitone"]) {
				c.Violate("attr", i, sig+":name-size", fmt.Sprintf("attribute %s reported with %d semitones, its name says %d", at, mustInt(m["semitone"]), want), obs(res))
				return
			}
		}
		if probs := describedNoteProblems(m, root, sharp); len(probs) > 0 {
			c.Violate("attr", i, sig+":note", fmt.Sprintf("%s from %s: %s", at, root, strings.Join(probs, "; ")), obs(res))
			return
		}
		if ap, _ := theory.ParseNote(asStr(m["applied"])); ap.Acc != 0 || mustInt(m["octave_diff"]) != 0 {
			c.Nontrivial(sig)
		}
		if c.WantSample() {
			c.Sample(map[string]any{"cmd": strings.Join(args, " "), "applied": m["applied"], "octave_diff": m["octave_diff"], "semitone": m["semitone"]})
		}
	})

	// ---------- CLI level: info chord describe for all dictionary keys
	syms := theory.SymbolKeys()
	totalC := len(roots) * len(syms) * 2
	nC := totalC
	if c.Quick() {
		nC = 300
	}
	c.Stream("chord", nC, func(i int, r *rand.Rand) {
		j := i
		if c.Quick() {
			j = r.Intn(totalC)
		}
		root := roots[j%len(roots)]
		sym := syms[(j/len(roots))%len(syms)]
		sharp := j/(len(roots)*len(syms)) == 1
		target := root.String()
		if j%3 == 1 && root.Acc != 0 {
			// the unicode spelling the lexer equally accepts
			target = string(root.Letter) + map[int]string{1: "♯", -1: "♭"}[root.Acc]
		}
		if sym != "" {
			target += "_" + sym
		}
		// a slash chord is still described from its root, whatever the bass
		if j%4 == 2 {
			target += "/" + roots[(j/7)%len(roots)].String()
		}
		args := []string{"info", "chord", "describe", "-t", target}
		if sharp {
			args = append(args, "-s")
		}
		res := run(c, nil, args...)
		c.Eval(1)
		if infra(c, res) {
			return
		}
		sig := fmt.Sprintf("chord:%s:s=%v", target, sharp)
		if a := abnormal(res); a != "" || !res.OK() {
			c.Violate("chord", i, sig+":failed", "info chord describe fails "+a, obs(res))
			return
		}
		m, err := yamlMap(res.Stdout)
		if err != nil {
			c.Violate("chord", i, sig+":yaml", err.Error(), obs(res))
			return
		}
		for _, a := range asList(m["attributes"]) {
			am, _ := a.(map[string]any)
			if probs := describedNoteProblems(am, root, sharp); len(probs) > 0 {
				c.Violate("chord", i, sig+":note", fmt.Sprintf("%s: %s", target, strings.Join(probs, "; ")), obs(res))
				return
			}
		}
		c.Nontrivial(sig)
	})

	// ---------- CLI level: a generated dictionary naming every interval up to 64
	all := theory.AllIntervals(64)
	var ua []userAttr
	var names []string
	for _, iv := range all {
		n := "Z" + iv.String()
		ua = append(ua, userAttr{Name: n, Degree: iv.Notation()})
		names = append(names, n)
	}
	attrFile := c.Scratch.File("all-attr.yml", attrsYAML(ua))
	chordFile := c.Scratch.File("all-chord.yml", chordsYAML([]userChord{{Name: "Zall", Display: "zall", Attrs: names}}))
	c.Extra("generated_intervals", len(all))
	c.Stream("generated", len(roots)*2, func(i int, _ *rand.Rand) {
		root := roots[i%len(roots)]
		sharp := i/len(roots) == 1
		args := []string{"info", "chord", "describe", "-t", root.String() + "_Zall", "--attr", attrFile, "--chord", chordFile}
		if sharp {
			args = append(args, "-s")
		}
		res := run(c, nil, args...)
		c.Eval(1)
		if infra(c, res) {
			return
		}
		sig := fmt.Sprintf("generated:%s:s=%v", root, sharp)
		if a := abnormal(res); a != "" || !res.OK() {
			c.Violate("generated", i, sig+":failed", "info chord describe with a generated dictionary of all intervals fails "+a, obs(res))
			return
		}
		m, err := yamlMap(res.Stdout)
		if err != nil {
			c.Violate("generated", i, sig+":yaml", err.Error(), nil)
			return
		}
		got := asList(m["attributes"])
		if len(got) != len(all) {
			c.Violate("generated", i, sig+":count", fmt.Sprintf("%d attributes described, %d defined", len(got), len(all)), nil)
			return
		}
		for k, a := range got {
			am, _ := a.(map[string]any)
			want, _ := theory.Size(all[k].N, all[k].Q)
			if mustInt(am["semitone"]) != want {
				c.Violate("generated", i, fmt.Sprintf("generated:size:%s", all[k]), fmt.Sprintf("interval %s (%s) reported with %d semitones, theory says %d", all[k], all[k].Notation(), mustInt(am["semitone"]), want), nil)
				return
			}
			if probs := describedNoteProblems(am, root, sharp); len(probs) > 0 {
				c.Violate("generated", i, fmt.Sprintf("generated:note:%s:%s:s=%v", all[k], root, sharp), fmt.Sprintf("%s from %s: %s", all[k], root, strings.Join(probs, "; ")), nil)
				return
			}
			c.Eval(1)
		}
		c.Nontrivial(sig)
	})

	// ---------- CLI level: user attributes whose names are easily confused: names that differ only in case
	// (M3/m3), names that are themselves valid degree notation but denote another interval ("7" = b7, "3" = b3)
	type tricky struct{ name, degree string }
	trickies := []tricky{{"M3", "3"}, {"m3", "b3"}, {"M7", "7"}, {"m7", "b7"}, {"M2", "2"}, {"m2", "b2"}, {"M6", "6"}, {"m6", "b6"}, {"P5", "5"}, {"p5", "b5"},
		{"7", "b7"}, {"3", "b3"}, {"9", "#9"}, {"b5", "5"}, {"#11", "11"}, {"13", "b13"}, {"1", "8"}, {"major3", "3"}, {"Major3x", "b3"}, {"perfect5", "#5"}}
	var ta []userAttr
	var tnames []string
	for _, t := range trickies {
		ta = append(ta, userAttr{Name: t.name, Degree: t.degree})
		tnames = append(tnames, t.name)
	}
	tAttr := c.Scratch.File("tricky-attr.yml", attrsYAML(ta))
	tChord := c.Scratch.File("tricky-chord.yml", chordsYAML([]userChord{{Name: "Ztricky", Display: "ztr", Attrs: tnames}}))
	c.Stream("userattr", len(trickies)*3+len(roots), func(i int, r *rand.Rand) {
		if i >= len(trickies)*3 {
			// the chord that lists them all, from every root
			root := roots[i-len(trickies)*3]
			res := run(c, nil, "info", "chord", "describe", "-t", root.String()+"_ztr", "--attr", tAttr, "--chord", tChord)
			c.Eval(1)
			if infra(c, res) {
				return
			}
			sig := "userattr:chord:" + root.String()
			if a := abnormal(res); a != "" || !res.OK() {
				c.Violate("userattr", i, sig+":failed", "info chord describe with a user dictionary of confusable attribute names fails "+a, obs(res))
				return
			}
			m, err := yamlMap(res.Stdout)
			got := asList(m["attributes"])
			if err != nil || len(got) != len(trickies) {
				c.Violate("userattr", i, sig+":count", fmt.Sprintf("%d attributes described, %d listed (err=%v)", len(got), len(trickies), err), obs(res))
				return
			}
			for k, a := range got {
				am, _ := a.(map[string]any)
				iv, _ := theory.ParseNotation(trickies[k].degree)
				want, _ := theory.Size(iv.N, iv.Q)
				if mustInt(am["semitone"]) != want {
					c.Violate("userattr", i, "userattr:chord-size:"+trickies[k].name, fmt.Sprintf("user attribute %q (degree %s) inside a chord is reported with %d semitones, its definition says %d", trickies[k].name, trickies[k].degree, mustInt(am["semitone"]), want), obs(res))
					return
				}
				if probs := describedNoteProblems(am, root, false); len(probs) > 0 {
					c.Violate("userattr", i, "userattr:chord-note:"+trickies[k].name, strings.Join(probs, "; "), obs(res))
					return
				}
			}
			c.Nontrivial(sig)
			return
		}
		t := trickies[i%len(trickies)]
		root := roots[r.Intn(len(roots))]
		res := run(c, nil, "info", "attr", "describe", "-t", t.name, "-r", root.String(), "--attr", tAttr)
		c.Eval(1)
		if infra(c, res) {
			return
		}
		sig := "userattr:" + t.name
		if a := abnormal(res); a != "" || !res.OK() {
			c.Violate("userattr", i, sig+":failed", fmt.Sprintf("info attr describe -t %s with a user dictionary defining it fails %s", t.name, a), obs(res))
			return
		}
		m, err := yamlMap(res.Stdout)
		if err != nil {
			c.Violate("userattr", i, sig+":yaml", err.Error(), obs(res))
			return
		}
		iv, _ := theory.ParseNotation(t.degree)
		want, _ := theory.Size(iv.N, iv.Q)
		if mustInt(m["semitone"]) != want {
			c.Violate("userattr", i, sig+":size", fmt.Sprintf("user attribute %q is defined as degree %s (%d semitones) but described with %d semitones", t.name, t.degree, want, mustInt(m["semitone"])), obs(res))
			return
		}
		if probs := describedNoteProblems(m, root, false); len(probs) > 0 {
			c.Violate("userattr", i, sig+":note", strings.Join(probs, "; "), obs(res))
			return
		}
		c.Nontrivial(sig + root.String())
	})

	// ---------- CLI level: roots that are not a note (junk around a note, two accidentals) are refused, never read as another note
	junkRoots := []string{"xF", "C##", "Cbb", "Gm", "A B", "", "H", "c", "C #", "Fb♭", "B♯#", "1", "C1", " C", "C "}
	c.Stream("junkroot", len(junkRoots), func(i int, _ *rand.Rand) {
		res := run(c, nil, "info", "attr", "describe", "-t", "Major3", "-r", junkRoots[i])
		c.Eval(1)
		if infra(c, res) {
			return
		}
		if a := abnormal(res); a != "" {
			c.Violate("junkroot", i, "junkroot:abnormal", fmt.Sprintf("info attr describe -r %q %s", junkRoots[i], a), obs(res))
			return
		}
		if res.OK() {
			m, _ := yamlMap(res.Stdout)
			c.Violate("junkroot", i, "junkroot:accepted:"+junkRoots[i], fmt.Sprintf("info attr describe -r %q is accepted and describes root %q: the root asked for is not a note", junkRoots[i], asStr(m["root"])), obs(res))
			return
		}
		c.Nontrivial("junkroot:" + junkRoots[i])
	})

	// ---------- CLI level: interval numbers far beyond anything musical: the size is 12 per octave, exactly, or the degree is refused
	hugeNums := []string{"5380300354831952555", "5380300354831952556", "5380300354831952560", "18446744073709551615", "3074457345618258590", "1000000000000", "4294967301", "8589934593", "9223372036854775807", "768614336404564650", "768614336404564651", "1537228672809129301", "65537", "100000"}
	majorSizes := []int64{0, 0, 2, 4, 5, 7, 9, 11}
	hugeCase := func(stream string, i int, ns string, root theory.Note, pre string) {
		n, _ := new(big.Int).SetString(ns, 10)
		simple := new(big.Int).Mod(new(big.Int).Sub(n, big.NewInt(1)), big.NewInt(7)).Int64() + 1
		oct := new(big.Int).Div(new(big.Int).Sub(n, big.NewInt(1)), big.NewInt(7))
		want := new(big.Int).Add(new(big.Int).Mul(oct, big.NewInt(12)), big.NewInt(majorSizes[simple]))
		switch pre {
		case "b":
			want.Sub(want, big.NewInt(1))
		case "#":
			want.Add(want, big.NewInt(1))
		}
		file := c.Scratch.File("huge-attr.yml", attrsYAML([]userAttr{{Name: "Zhuge", Degree: pre + ns}}))
		res := run(c, nil, "info", "attr", "describe", "-t", "Zhuge", "-r", root.String(), "--attr", file)
		c.Eval(1)
		if infra(c, res) {
			return
		}
		sig := "hugenumber:" + pre + ns
		if a := abnormal(res); a != "" {
			c.Violate(stream, i, sig+":abnormal", fmt.Sprintf("an attribute of degree %s%s: info attr describe %s", pre, ns, a), obs(res))
			return
		}
		if !res.OK() {
			c.Count("huge_numbers_refused", 1)
			return
		}
		m, err := yamlMap(res.Stdout)
		if err != nil {
			c.Violate(stream, i, sig+":yaml", err.Error(), obs(res))
			return
		}
		got, ok := new(big.Int).SetString(strings.TrimSpace(fmt.Sprint(m["semitone"])), 10)
		if !ok || got.Cmp(want) != 0 {
			c.Violate(stream, i, sig+":size", fmt.Sprintf("degree %s%s is accepted and reported with %v semitones; twelve per octave gives %s", pre, ns, m["semitone"], want), obs(res))
			return
		}
		ap, err := theory.ParseNote(asStr(m["applied"]))
		wantPC := int(new(big.Int).Mod(new(big.Int).Add(want, big.NewInt(int64(root.Pitch()+120))), big.NewInt(12)).Int64())
		if err != nil || ((ap.Pitch()%12)+12)%12 != wantPC {
			c.Violate(stream, i, sig+":note", fmt.Sprintf("degree %s%s from %s: applied note %q, root + interval has pitch class %d", pre, ns, root, asStr(m["applied"]), wantPC), obs(res))
			return
		}
		if od, ok := new(big.Int).SetString(strings.TrimSpace(fmt.Sprint(m["octave_diff"])), 10); !ok || new(big.Int).Add(big.NewInt(int64(ap.Pitch())), new(big.Int).Mul(od, big.NewInt(12))).Cmp(new(big.Int).Add(want, big.NewInt(int64(root.Pitch())))) != 0 {
			c.Violate(stream, i, sig+":octave", fmt.Sprintf("degree %s%s from %s: applied %s with octave_diff %v is not root + interval = %s + %s", pre, ns, root, ap, m["octave_diff"], root, want), obs(res))
			return
		}
		c.Nontrivial(sig + root.String())
	}
	c.Stream("hugenumber", len(hugeNums)*3, func(i int, _ *rand.Rand) {
		hugeCase("hugenumber", i, hugeNums[i%len(hugeNums)], roots[(i*5)%len(roots)], []string{"", "b", "#"}[i/len(hugeNums)])
	})
	// the numbers around the largest degree crd accepts, from the roots at the top of the octave (where root +
	// interval needs the most room) and two at the bottom (round 10, C15-mutR10a: the bound loosened by three octaves)
	var edgeRoots []theory.Note
	for _, rt := range roots {
		if p := ((rt.Pitch() % 12) + 12) % 12; p >= 8 || p <= 1 {
			edgeRoots = append(edgeRoots, rt)
		}
	}
	c.Stream("hugeroot", 44*len(edgeRoots), func(i int, _ *rand.Rand) {
		n := new(big.Int).Add(big.NewInt(5380300354831952527), big.NewInt(int64(i%44)))
		hugeCase("hugeroot", i, n.String(), edgeRoots[i/44], []string{"", "", "#", "b"}[i%4])
	})

	// ---------- CLI level: a chord at the end of a chain of extends is described with every inherited note
	// (chains of 9 .. 40 chords, one attribute each), and an attribute file may arrive through a pipe
	c.Stream("chain", 24, func(i int, r *rand.Rand) {
		depth := 9 + i*2
		var as []userAttr
		var cs []userChord
		for k := 0; k < depth; k++ {
			as = append(as, userAttr{Name: fmt.Sprintf("Zr%d", k), Degree: fmt.Sprint(1 + k%15)})
			uc := userChord{Name: fmt.Sprintf("Zrun%d", k), Display: fmt.Sprintf("zrun%d", k), Attrs: []string{fmt.Sprintf("Zr%d", k)}}
			if k > 0 {
				uc.Extends = []string{fmt.Sprintf("Zrun%d", k-1), fmt.Sprintf("zrun%d", k-1)}[k%2]
			}
			cs = append(cs, uc)
		}
		root := roots[(i*4)%len(roots)]
		// the order of the definitions does not matter (a dictionary is a set of definitions): parents first,
		// children first, sorted by name, or the younger half in a file given before the file of the older half;
		// several files in one flag value, separated by commas, or one flag per file
		layout := []string{"parents-first", "children-first", "sorted-by-name", "two-files-children-first", "two-files-comma", "file-named-twice"}[(i/2)%6]
		ordered := append([]userChord(nil), cs...)
		switch layout {
		case "children-first":
			for a, b := 0, len(ordered)-1; a < b; a, b = a+1, b-1 {
				ordered[a], ordered[b] = ordered[b], ordered[a]
			}
		case "sorted-by-name":
			sort.Slice(ordered, func(a, b int) bool { return ordered[a].Name < ordered[b].Name })
		}
		args := []string{"info", "chord", "describe", "-t", root.String() + "_zrun" + fmt.Sprint(depth-1)}
		switch layout {
		case "two-files-children-first":
			args = append(args, "--chord", c.Scratch.File("chain-young.yml", chordsYAML(cs[depth/2:])), "--chord", c.Scratch.File("chain-old.yml", chordsYAML(cs[:depth/2])))
		case "two-files-comma":
			args = append(args, "--chord", c.Scratch.File("chain-young.yml", chordsYAML(cs[depth/2:]))+","+c.Scratch.File("chain-old.yml", chordsYAML(cs[:depth/2])))
		case "file-named-twice":
			// the dictionary, a file that redefines its last chord, the dictionary again: the file given last wins
			house := c.Scratch.File("chain-chord.yml", chordsYAML(ordered))
			over := c.Scratch.File("chain-override.yml", chordsYAML([]userChord{{Name: fmt.Sprintf("Zrun%d", depth-1), Display: fmt.Sprintf("zrun%d", depth-1), Attrs: []string{"Zr0"}}}))
			args = append(args, "--chord", house, "--chord", over, "--chord="+house)
		default:
			args = append(args, "--chord", c.Scratch.File("chain-chord.yml", chordsYAML(ordered)))
		}
		var stdin []byte
		switch {
		case i%2 == 1:
			args = append(args, "--attr", "/dev/stdin")
			stdin = attrsYAML(as)
		case layout == "two-files-comma":
			args = append(args, "--attr="+c.Scratch.File("chain-attr1.yml", attrsYAML(as[depth/3:]))+","+c.Scratch.File("chain-attr2.yml", attrsYAML(as[:depth/3])))
		default:
			args = append(args, "--attr", c.Scratch.File("chain-attr.yml", attrsYAML(as)))
		}
		res := run(c, stdin, args...)
		c.Eval(1)
		if infra(c, res) {
			return
		}
		sig := fmt.Sprintf("chain:%d:%s", depth, layout)
		if a := abnormal(res); a != "" || !res.OK() {
			c.Violate("chain", i, sig+":failed", fmt.Sprintf("info chord describe of the last chord of a chain of %d extends (%s) fails %s", depth, layout, a), obs(res))
			return
		}
		m, err := yamlMap(res.Stdout)
		got := asList(m["attributes"])
		if err != nil || len(got) != depth {
			c.Violate("chain", i, sig+":count", fmt.Sprintf("the last chord of a chain of %d extends (one attribute each, %s) is described with %d notes (err=%v)", depth, layout, len(got), err), obs(res))
			return
		}
		for k, a := range got {
			am, _ := a.(map[string]any)
			iv, _ := theory.ParseNotation(fmt.Sprint(1 + k%15))
			want, _ := theory.Size(iv.N, iv.Q)
			if mustInt(am["semitone"]) != want {
				c.Violate("chain", i, sig+":size", fmt.Sprintf("inherited attribute %d of %d is reported with %d semitones, its definition says %d", k, depth, mustInt(am["semitone"]), want), obs(res))
				return
			}
			if probs := describedNoteProblems(am, root, false); len(probs) > 0 {
				c.Violate("chain", i, sig+":note", strings.Join(probs, "; "), obs(res))
				return
			}
		}
		c.Nontrivial(sig)
	})

	// chord symbols of a user dictionary that contain the unicode accidentals (7♭9, maj7♯5): the symbol is looked up as
	// it is written, the ASCII look-alike next to it is another chord
	uni := []userChord{
		{Name: "ZflatNine", Display: "7♭9", Attrs: []string{"Perfect1", "Minor9"}},
		{Name: "ZasciiNine", Display: "7b9", Attrs: []string{"Perfect1", "Major3", "Perfect5"}},
		{Name: "ZsharpFive", Display: "maj7♯5", Attrs: []string{"Perfect1", "Augmented5"}},
		{Name: "ZasciiFive", Display: "maj7#5", Attrs: []string{"Perfect1", "Major3", "Major7"}},
		{Name: "ZflatOnly", Display: "m11♭5", Attrs: []string{"Perfect1", "Minor3", "Diminished5", "Perfect11"}},
	}
	uniFile := c.Scratch.File("unicode-symbols.yml", chordsYAML(uni))
	c.Stream("unisymbol", len(uni)*4, func(i int, _ *rand.Rand) {
		uc := uni[i%len(uni)]
		root := roots[(i*5)%len(roots)]
		target := root.String() + "_" + uc.Display
		if i/len(uni)%2 == 1 {
			target = uniNoteText(root) + "_" + uc.Display
		}
		res := run(c, nil, "info", "chord", "describe", "-t", target, "--chord", uniFile)
		c.Eval(1)
		if infra(c, res) {
			return
		}
		sig := "unisymbol:" + uc.Display
		if a := abnormal(res); a != "" || !res.OK() {
			c.Violate("unisymbol", i, sig+":failed", fmt.Sprintf("info chord describe -t %s with a dictionary that defines the symbol %s fails %s", target, uc.Display, a), obs(res))
			return
		}
		m, err := yamlMap(res.Stdout)
		got := asList(m["attributes"])
		if err != nil || len(got) != len(uc.Attrs) {
			c.Violate("unisymbol", i, sig+":count", fmt.Sprintf("info chord describe -t %s reports %d notes, the chord with the symbol %s is defined with %d (err=%v)", target, len(got), uc.Display, len(uc.Attrs), err), obs(res))
			return
		}
		for k, a := range got {
			am, _ := a.(map[string]any)
			iv, ok := theory.AttributeInterval(uc.Attrs[k])
			want, _ := theory.Size(iv.N, iv.Q)
			if ok && mustInt(am["semitone"]) != want {
				c.Violate("unisymbol", i, sig+":size", fmt.Sprintf("info chord describe -t %s: note %d has %d semitones, %s has %d", target, k, mustInt(am["semitone"]), uc.Attrs[k], want), obs(res))
				return
			}
		}
		c.Nontrivial(sig + root.String())
	})

	bigDictionary(c, roots)
}

// uniNoteText writes the accidental of a note with the unicode sign.
func uniNoteText(n theory.Note) string {
	s := n.String()
	if len(s) < 2 {
		return s
	}
	return s[:1] + strings.NewReplacer("#", "♯", "b", "♭").Replace(s[1:])
}

// bigDictionary checks that a user dictionary of several megabytes is read to its end: every attribute around each
// MiB mark and the last one are described with the interval of their definition, and all of them are listed.
func bigDictionary(c *core.Ctx, roots []theory.Note) {
	const n = 190000
	degrees := []string{"b13", "#11", "9", "bb7", "#5", "b3", "14", "bbb6"}
	var b strings.Builder
	// the entries that lie across a multiple of 1 MiB, and the first and the last
	probe := []int{0, n - 1}
	for k := 0; k < n; k++ {
		before := b.Len()
		if k == n/3 {
			// one very long line (a comment of 70,000 bytes; a dictionary exported on one line looks the same to a
			// line-by-line reader): everything behind it still counts
			b.WriteString("# " + strings.Repeat("long line ", 7000) + "\n")
		}
		fmt.Fprintf(&b, "- name: Zbig%d\n  degree: %q\n", k, degrees[k%len(degrees)])
		if before>>20 != b.Len()>>20 {
			probe = append(probe, k, k+1)
		}
	}
	file := c.Scratch.File("big-attr.yml", []byte(b.String()))
	c.Extra("big_dictionary_bytes", b.Len())
	c.Stream("bigdict", len(probe)+1, func(i int, _ *rand.Rand) {
		if i == len(probe) {
			res := run(c, nil, "info", "attr", "list", "--attr", file)
			c.Eval(1)
			if infra(c, res) {
				return
			}
			if a := abnormal(res); a != "" || !res.OK() {
				c.Violate("bigdict", i, "bigdict:list-failed", fmt.Sprintf("info attr list with a dictionary of %d attributes (%d bytes) fails %s", n, b.Len(), a), obs(res))
				return
			}
			if got := bytes.Count(res.Stdout, []byte("- name: Zbig")); got != n {
				c.Violate("bigdict", i, "bigdict:list-count", fmt.Sprintf("info attr list with a dictionary of %d attributes (%d bytes) lists %d of them", n, b.Len(), got), nil)
				return
			}
			c.Nontrivial("bigdict:list")
			return
		}
		k := probe[i]
		if k >= n {
			return
		}
		root := roots[(k*7)%len(roots)]
		name, deg := fmt.Sprintf("Zbig%d", k), degrees[k%len(degrees)]
		res := run(c, nil, "info", "attr", "describe", "-t", name, "-r", root.String(), "--attr", file)
		c.Eval(1)
		if infra(c, res) {
			return
		}
		sig := fmt.Sprintf("bigdict:%d", i)
		if a := abnormal(res); a != "" || !res.OK() {
			c.Violate("bigdict", i, sig+":failed", fmt.Sprintf("attribute %d of %d in a dictionary of %d bytes: info attr describe -t %s fails %s", k, n, b.Len(), name, a), obs(res))
			return
		}
		m, err := yamlMap(res.Stdout)
		iv, _ := theory.ParseNotation(deg)
		want, _ := theory.Size(iv.N, iv.Q)
		if err != nil || mustInt(m["semitone"]) != want {
			c.Violate("bigdict", i, sig+":size", fmt.Sprintf("attribute %d of %d in a dictionary of %d bytes is defined as %s (%d semitones) and described with %d (err=%v)", k, n, b.Len(), deg, want, mustInt(m["semitone"]), err), obs(res))
			return
		}
		if probs := describedNoteProblems(m, root, false); len(probs) > 0 {
			c.Violate("bigdict", i, sig+":note", strings.Join(probs, "; "), obs(res))
			return
		}
		c.Nontrivial(sig)
	})
}

var notationSuffix = regexp.MustCompile(`^([0-9]+)(b{1,3}|#{1,2})$`)

func mustInt(v any) int {
	i, _ := asInt(v)
	return i
}
