package main

import (
	"bytes"
	"fmt"
	"os"
	"sort"
	"strings"

	"gopkg.in/yaml.v3"

	"verif/core"
	"verif/runner"
	"verif/smfdec"
	"verif/theory"
)

// run executes crd with the arguments and optional stdin.
func run(c *core.Ctx, stdin []byte, args ...string) *runner.Result {
	if stdin == nil {
		stdin = []byte{}
	}
	return c.Crd.Run(runner.Opt{Stdin: stdin}, args...)
}

// runCPU is run with an explicit CPU-seconds limit (for inputs outside the promptness domain of C09).
func runCPU(c *core.Ctx, cpu int, stdin []byte, args ...string) *runner.Result {
	if stdin == nil {
		stdin = []byte{}
	}
	return c.Crd.Run(runner.Opt{Stdin: stdin, CPUSec: cpu}, args...)
}

// obs renders a result for violation details.
func obs(r *runner.Result) map[string]any {
	return map[string]any{
		"argv":   runner.ShellQuote(r.Argv),
		"exit":   r.Exit,
		"signal": r.Signal,
		"stdout": core.Trunc(r.Stdout, 1500),
		"stderr": core.Trunc(lastLines(r.Stderr, 6), 1500),
	}
}

func lastLines(b []byte, n int) []byte {
	lines := bytes.Split(bytes.TrimRight(b, "\n"), []byte("\n"))
	if len(lines) > n {
		lines = lines[len(lines)-n:]
	}
	return bytes.Join(lines, []byte("\n"))
}

// infra reports a run that cannot be judged (watchdog, spawn failure).
func infra(c *core.Ctx, r *runner.Result) bool {
	if r.StartErr != nil {
		c.Inconclusive(fmt.Sprintf("could not start crd: %v", r.StartErr))
		return true
	}
	if r.WallKill {
		c.Inconclusive("wall-clock watchdog fired for " + runner.ShellQuote(r.Argv))
		return true
	}
	return false
}

// abnormal reports crash/hang of a child as a violation description ("" = none).
func abnormal(r *runner.Result) string {
	if r.Blocked {
		return "never finishes: the process is asleep and consumes no CPU any more (deadlock)"
	}
	if r.CPUHang() {
		return "exceeded the CPU-time limit (hang)"
	}
	if ok, why := r.Crashed(); ok {
		return "crashed: " + why
	}
	return ""
}

func yamlMap(b []byte) (map[string]any, error) {
	var m map[string]any
	if err := yaml.Unmarshal(b, &m); err != nil {
		return nil, err
	}
	return m, nil
}

func yamlList(b []byte) ([]any, error) {
	var l []any
	if err := yaml.Unmarshal(b, &l); err != nil {
		return nil, err
	}
	return l, nil
}

func strList(v any) []string {
	l, _ := v.([]any)
	var r []string
	for _, x := range l {
		r = append(r, fmt.Sprint(x))
	}
	return r
}

func asInt(v any) (int, bool) {
	switch x := v.(type) {
	case int:
		return x, true
	case int64:
		return int(x), true
	case uint64:
		return int(x), true
	case float64:
		return int(x), x == float64(int(x))
	case nil:
		return 0, true
	}
	return 0, false
}

func asStr(v any) string {
	if v == nil {
		return ""
	}
	return fmt.Sprint(v)
}

func sortedCopy(s []string) []string {
	r := append([]string(nil), s...)
	sort.Strings(r)
	return r
}

func eqStrs(a, b []string) bool {
	if len(a) != len(b) {
		return false
	}
	for i := range a {
		if a[i] != b[i] {
			return false
		}
	}
	return true
}

func eqInts(a, b []int) bool {
	if len(a) != len(b) {
		return false
	}
	for i := range a {
		if a[i] != b[i] {
			return false
		}
	}
	return true
}

func sortedInts(a []int) []int {
	r := append([]int(nil), a...)
	sort.Ints(r)
	return r
}

// decodeSMF decodes and reports decode problems as a string.
func decodeSMF(b []byte) (*smfdec.File, string) {
	f, err := smfdec.Decode(b)
	if err != nil {
		return nil, err.Error()
	}
	return f, ""
}

// noteEvents returns the note-on/off events of a file merged over all tracks in
// (tick, track, index) order.
func mergedEvents(f *smfdec.File) []smfdec.Event {
	var all []smfdec.Event
	for _, t := range f.Tracks {
		all = append(all, t.Events...)
	}
	sort.SliceStable(all, func(i, j int) bool {
		if all[i].Tick != all[j].Tick {
			return all[i].Tick < all[j].Tick
		}
		if all[i].Track != all[j].Track {
			return all[i].Track < all[j].Track
		}
		return all[i].Index < all[j].Index
	})
	return all
}

func joinArgs(a ...[]string) []string {
	var r []string
	for _, x := range a {
		r = append(r, x...)
	}
	return r
}

func short(s string, n int) string {
	if len(s) <= n {
		return s
	}
	return s[:n] + "…"
}

func containsStr(l []string, s string) bool {
	for _, x := range l {
		if x == s {
			return true
		}
	}
	return false
}

var _ = strings.TrimSpace

func theoryKey(s string) (theory.Key, error) { return theory.ParseKey(s) }

func osReadFile(p string) ([]byte, error) { return os.ReadFile(p) }
