// vcheck is the driver of all property checks.
//
//	vcheck -id C07 -tier quick -crd .build/x/crd [-race .build/x/crd-race] [-worker .build/x/vworker] [-replay file]
package main

import (
	"encoding/json"
	"flag"
	"fmt"
	"os"
	"sort"
	"strconv"

	"verif/core"
	"verif/runner"
	"verif/theory"
)

type checkFn func(c *core.Ctx)

var registry = map[string]checkFn{}

func register(id string, f checkFn) { registry[id] = f }

func main() {
	var (
		id     = flag.String("id", "", "property id")
		tier   = flag.String("tier", "quick", "quick|thorough")
		crd    = flag.String("crd", "", "path of the crd binary built from /repo")
		race   = flag.String("race", "", "path of the crd binary built with -race")
		worker = flag.String("worker", "", "path of the in-process worker")
		replay = flag.String("replay", "", "replay file")
		root   = flag.String("root", "/verif", "verif root")
		repo   = flag.String("repo", "/repo", "repository")
		list   = flag.Bool("list", false, "list checks")
	)
	flag.Parse()
	if *list {
		var ids []string
		for k := range registry {
			ids = append(ids, k)
		}
		sort.Strings(ids)
		for _, k := range ids {
			fmt.Println(k)
		}
		return
	}
	f, ok := registry[*id]
	if !ok {
		fmt.Fprintf(os.Stderr, "unknown check %q\n", *id)
		os.Exit(2)
	}
	seed := int64(1)
	if s := os.Getenv("VERIF_SEED"); s != "" {
		if v, err := strconv.ParseInt(s, 10, 64); err == nil {
			seed = v
		}
	}
	c := core.New(*id, *tier, seed, *root, *repo)
	if *replay != "" {
		b, err := os.ReadFile(*replay)
		if err != nil {
			fmt.Fprintf(os.Stderr, "replay: %v\n", err)
			os.Exit(2)
		}
		var v core.Violation
		if err := json.Unmarshal(b, &v); err != nil {
			fmt.Fprintf(os.Stderr, "replay: %v\n", err)
			os.Exit(2)
		}
		c.Seed = v.Seed
		c.Tier = v.Tier
		c.OnlyStream = v.Stream
		c.OnlyIndex = v.Index
		fmt.Printf("replaying %s stream=%s index=%d seed=%d tier=%s\n  recorded: %s\n", v.Property, v.Stream, v.Index, v.Seed, v.Tier, v.What)
	}
	if err := theory.SelfTest(); err != nil {
		fmt.Printf("INCONCLUSIVE: %v\n", err)
		os.Exit(2)
	}
	c.Crd = runner.New(*crd)
	c.CrdRace = *race
	c.Worker = *worker
	sc, err := runner.NewScratch(*id)
	if err != nil {
		fmt.Printf("INCONCLUSIVE: scratch: %v\n", err)
		os.Exit(2)
	}
	c.Scratch = sc
	code := 2
	func() {
		defer sc.Close()
		defer func() {
			if p := recover(); p != nil {
				// a bug of the harness is never a verdict about crd
				fmt.Printf("INCONCLUSIVE: harness failure in check %s: %v\n", *id, p)
				code = 2
			}
		}()
		f(c)
		code = c.Finish()
	}()
	os.Exit(code)
}
