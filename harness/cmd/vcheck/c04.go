package main

import (
	"bytes"
	"encoding/base64"
	"encoding/json"
	"fmt"
	"math/rand"
	"os"
	"os/exec"
	"path/filepath"
	"strings"
	"unicode/utf8"

	"verif/core"
	"verif/grammar"
	"verif/runner"
)

func init() { register("C04", checkC04) }

type parseOut struct {
	I     int            `json:"i"`
	Acc   bool           `json:"acc"`
	RC    int            `json:"rc"`
	N     int            `json:"n"`
	Res   bool           `json:"res"`
	Items []grammar.Item `json:"items"`
	Panic string         `json:"panic"`
	Hang  bool           `json:"hang"`
}

// parseBatch sends inputs to the in-process worker; it survives crashes and
// hangs of the worker by restarting after the offending input. The result
// slice is indexed like inputs; nil entries could not be obtained.
func parseBatch(c *core.Ctx, inputs [][]byte, tree bool) ([]*parseOut, []string) {
	outs := make([]*parseOut, len(inputs))
	var notes []string
	start := 0
	restarts := 0
	for start < len(inputs) {
		if restarts >= 3 || c.TooMany() {
			notes = append(notes, fmt.Sprintf("shard abandoned after %d worker deaths (violations already recorded)", restarts))
			break
		}
		var buf bytes.Buffer
		for i := start; i < len(inputs); i++ {
			b, _ := json.Marshal(map[string]any{"i": i, "s": base64.StdEncoding.EncodeToString(inputs[i]), "t": tree})
			buf.Write(b)
			buf.WriteByte('\n')
		}
		r, lines := runWorker(c, buf.Bytes(), 600, "parse")
		if r.WallKill || r.StartErr != nil {
			notes = append(notes, "worker watchdog/start failure")
			return outs, notes
		}
		last := start - 1
		for _, ln := range lines {
			var o parseOut
			if json.Unmarshal(ln, &o) != nil {
				continue
			}
			oc := o
			if o.I >= 0 && o.I < len(outs) {
				outs[o.I] = &oc
				if o.I > last {
					last = o.I
				}
			}
		}
		if r.OK() {
			break
		}
		// worker died: the last announced case is the culprit
		culprit := last + 1
		if lc := lastCase(r); lc != "" {
			fmt.Sscanf(lc, "%d", &culprit)
		}
		if culprit < start || culprit >= len(inputs) {
			notes = append(notes, fmt.Sprintf("worker died (exit %d signal %d) without attributable case", r.Exit, r.Signal))
			return outs, notes
		}
		if outs[culprit] == nil || !outs[culprit].Hang {
			why := "crashed"
			if r.CPUHang() {
				why = "hang"
			}
			outs[culprit] = &parseOut{I: culprit, Hang: r.CPUHang(), Panic: why + ": " + core.Trunc(lastLines(r.Stderr, 4), 400)}
		}
		start = culprit + 1
		restarts++
	}
	return outs, notes
}

// cliParse judges one input through the real CLI.
func cliParse(c *core.Ctx, in []byte) (acc bool, abn string, res *runner.Result) {
	// the input paths take turns (chosen by the input itself, so a replay takes the same path)
	return cliParsePath(c, in, hashBytes(in)%cliPaths)
}

const cliPaths = 16

// cliParsePath asks `crd text parse` about the text over the given input path.
func cliParsePath(c *core.Ctx, in []byte, h uint32) (acc bool, abn string, res *runner.Result) {
	if h == 8 && !runner.PtyTypable(in) {
		h = 0
	}
	stdinIn := in
	if len(in) == 0 {
		stdinIn = []byte{}
	}
	switch h {
	case 0:
		res = run(c, in, "text", "parse")
	case 1:
		res = run(c, in, "text", "parse", "-")
	case 2:
		// FILE that is not a regular file: a pipe reached through its /dev name (no size, no seeking)
		res = run(c, in, "text", "parse", "/dev/stdin")
	case 4:
		// standard input is a regular file
		res = c.Crd.Run(runner.Opt{Stdin: stdinIn, StdinKind: "file"}, "text", "parse")
	case 5:
		// ... whose first line somebody else has read already: the text starts at the current offset
		a := []string{"text", "parse"}
		if hashBytes(in)/16%2 == 0 {
			a = append(a, "-")
		}
		res = c.Crd.Run(runner.Opt{Stdin: stdinIn, StdinKind: "fileoffset"}, a...)
	case 6:
		res = c.Crd.Run(runner.Opt{Stdin: stdinIn, StdinKind: "socket"}, "text", "parse")
	case 7:
		// the text arrives in pieces (short reads)
		res = c.Crd.Run(runner.Opt{Stdin: stdinIn, StdinPieces: 3}, "text", "parse")
	case 8:
		// typed on a terminal
		res = c.Crd.Run(runner.Opt{Stdin: stdinIn, StdinKind: "pty"}, "text", "parse")
	case 9:
		// FILE reached through a symbolic link and "..": cur -> lib/album, cur/../c04.txt is lib/c04.txt (what the
		// operating system opens), not ./c04.txt (what a lexical clean-up of the path would name)
		root := c.Scratch.Path("c04-links")
		os.MkdirAll(filepath.Join(root, "lib", "album"), 0o755)
		os.Symlink(filepath.Join("lib", "album"), filepath.Join(root, "cur"))
		os.WriteFile(filepath.Join(root, "lib", "c04.txt"), in, 0o644)
		os.WriteFile(filepath.Join(root, "c04.txt"), []byte("C[1] this is another file ]["), 0o644)
		if hashBytes(in)/16%2 == 0 {
			res = c.Crd.Run(runner.Opt{Stdin: []byte{}, Dir: root}, "text", "parse", "cur/../c04.txt")
		} else {
			res = run(c, nil, "text", "parse", root+"/cur/../c04.txt") // (filepath.Join would clean the path itself)
		}
	case 10:
		// -o names a file that already holds this very tree followed by more (the tree of a longer text starts
		// with the tree of its beginning): afterwards it holds the tree and nothing else
		ref := run(c, in, "text", "parse")
		if ref.WallKill || ref.StartErr != nil || !ref.OK() || abnormal(ref) != "" {
			res = ref
			break
		}
		out := c.Scratch.File("c04-tree.yml", append(append([]byte{}, ref.Stdout...), []byte("    - rest:\n        type: 57359\n")...))
		res = run(c, in, "text", "parse", "-o", out)
		if res.OK() {
			if got := readFileOrNil(out); !bytes.Equal(got, ref.Stdout) {
				return false, fmt.Sprintf("leaves %d bytes in an -o file that held the same tree followed by more; the tree has %d bytes", len(got), len(ref.Stdout)), res
			}
			res.Stdout = ref.Stdout
		}
	case 11:
		// the text ends in a read error (EIO) instead of an end of input: whatever arrived, that is no sentence
		if len(in) > 0 {
			bad := c.Crd.Run(runner.Opt{Stdin: stdinIn, StdinKind: "eio"}, "text", "parse")
			if bad.WallKill || bad.StartErr != nil {
				return false, "infra", bad
			}
			if a := abnormal(bad); a != "" {
				return false, a + " (standard input ending in a read error)", bad
			}
			if bad.OK() {
				return false, "accepts a text whose reading ended in an I/O error (EIO)", bad
			}
		}
		res = run(c, in, "text", "parse")
	case 12:
		// -o naming something that is not a regular file: the standard output itself
		res = run(c, in, "text", "parse", "-o", []string{"/dev/stdout", "/dev/fd/1"}[hashBytes(in)/16%2])
	case 13:
		// a standard output that takes nothing (/dev/full): however small the tree, the run has failed
		ref := run(c, in, "text", "parse")
		if ref.WallKill || ref.StartErr != nil || !ref.OK() || abnormal(ref) != "" || len(ref.Stdout) == 0 {
			res = ref
			break
		}
		full := c.Crd.Run(runner.Opt{Stdin: stdinIn, Redirect: ">/dev/full"}, "text", "parse")
		if full.WallKill || full.StartErr != nil {
			return false, "infra", full
		}
		if a := abnormal(full); a != "" {
			return false, a + " (standard output on /dev/full)", full
		}
		if full.OK() {
			return false, fmt.Sprintf("reports success although none of the %d bytes of the tree could be written (standard output on /dev/full)", len(ref.Stdout)), full
		}
		res = ref
	case 14:
		// --debug: log lines belong on the standard error, the tree is the tree (only judged where the text is accepted:
		// the parser trace of a failing parse is known finding F-10)
		ref := run(c, in, "text", "parse")
		if ref.WallKill || ref.StartErr != nil || !ref.OK() || abnormal(ref) != "" {
			res = ref
			break
		}
		res = run(c, in, "text", "parse", "--debug")
		if res.OK() && !bytes.Equal(res.Stdout, ref.Stdout) {
			return false, fmt.Sprintf("prints %d bytes with --debug and %d without (%s)", len(res.Stdout), len(ref.Stdout), firstLineDiff(ref.Stdout, res.Stdout)), res
		}
	case 15:
		// -o /dev/null: nothing to read back, but the verdict is the verdict
		null := run(c, in, "text", "parse", "--output=/dev/null")
		res = run(c, in, "text", "parse")
		if null.WallKill || null.StartErr != nil {
			return false, "infra", null
		}
		if a := abnormal(null); a != "" {
			return false, a + " (--output=/dev/null)", null
		}
		if null.OK() != res.OK() {
			return false, fmt.Sprintf("accepts=%v with --output=/dev/null and accepts=%v printing to the standard output", null.OK(), res.OK()), null
		}
	default:
		res = run(c, nil, "text", "parse", c.Scratch.File("c04.txt", in))
	}
	if res.WallKill || res.StartErr != nil {
		return false, "infra", res
	}
	if a := abnormal(res); a != "" {
		return false, a, res
	}
	return res.OK(), "", res
}

func qs(b []byte) string {
	s := fmt.Sprintf("%q", b)
	if len(s) > 160 {
		s = s[:160] + "…"
	}
	return s
}

// judgeParse compares crd's verdict (and tree) for every input with the reference.
func judgeParse(c *core.Ctx, g *grammar.Grammar, stream string, idx int, inputs [][]byte, tree bool, class string) {
	if len(inputs) == 0 {
		return
	}
	var outs []*parseOut
	if c.Worker != "" {
		var notes []string
		outs, notes = parseBatch(c, inputs, tree)
		for _, n := range notes {
			c.Inconclusive(stream + ": " + n)
		}
	} else {
		outs = make([]*parseOut, len(inputs))
	}
	for i, in := range inputs {
		if c.TooMany() {
			return
		}
		want, tr := g.Accept(in)
		o := outs[i]
		viaCLI := false
		// no worker, or seeded sample: ask the CLI
		if o == nil || (len(inputs) > 50 && i%97 == idx%97) || (len(inputs) <= 50 && i%5 == 0) {
			acc, abn, res := cliParse(c, in)
			c.Count("cli_cross_checks", 1)
			if abn == "infra" {
				continue
			}
			if abn != "" {
				c.Violate(stream, idx, fmt.Sprintf("%s:abnormal:%s", class, qs(in)), fmt.Sprintf("crd text parse on %s %s", qs(in), abn), obs(res))
				continue
			}
			if o != nil && !o.Hang && o.Panic == "" && o.Acc != acc {
				c.Violate(stream, idx, fmt.Sprintf("%s:cli-vs-lib:%s", class, qs(in)), fmt.Sprintf("ast.Parse accepts=%v but `crd text parse` accepts=%v for %s", o.Acc, acc, qs(in)), obs(res))
				continue
			}
			if !acc && len(bytes.TrimSpace(res.Stdout)) > 0 {
				c.Violate(stream, idx, fmt.Sprintf("%s:partial-output:%s", class, qs(in)), fmt.Sprintf("`crd text parse` rejects %s but prints a tree", qs(in)), obs(res))
				continue
			}
			if o == nil {
				o = &parseOut{I: i, Acc: acc}
				viaCLI = true
				if acc && tree {
					if items, err := itemsFromParseYAML(res.Stdout); err == nil {
						o.Items = items
					} else {
						c.Violate(stream, idx, fmt.Sprintf("%s:yaml:%s", class, qs(in)), "text parse output unreadable: "+err.Error(), obs(res))
						continue
					}
				}
			} else if acc && tree && utf8.Valid(in) {
				if items, err := itemsFromParseYAML(res.Stdout); err == nil {
					if a, b := mustJSON(items), mustJSON(o.Items); a != b {
						c.Violate(stream, idx, fmt.Sprintf("%s:cli-tree:%s", class, qs(in)), fmt.Sprintf("`crd text parse` prints a different tree than ast.Parse builds for %s", qs(in)), map[string]any{"cli": a, "lib": b})
						continue
					}
				}
			}
		}
		c.Eval(1)
		if o.Hang || o.Panic != "" {
			// confirm with the CLI under the CPU limit
			acc, abn, res := cliParse(c, in)
			if abn != "" && abn != "infra" {
				c.Violate(stream, idx, fmt.Sprintf("%s:abnormal:%s", class, qs(in)), fmt.Sprintf("parsing %s never finishes or crashes: %s (library: hang=%v %s)", qs(in), abn, o.Hang, o.Panic), obs(res))
			} else if abn == "" {
				c.Count("library_anomaly_not_confirmed_by_cli", 1)
				_ = acc
			}
			continue
		}
		if o.Acc != want {
			c.Violate(stream, idx, fmt.Sprintf("%s:accept:%s", class, qs(in)),
				fmt.Sprintf("crd accepts=%v, the grammar (with the documented tokenisation) accepts=%v: %s  tokens=%v", o.Acc, want, qs(in), grammar.Kinds(tr.Tokens)), nil)
			continue
		}
		if want {
			c.Count("accepted", 1)
		} else {
			c.Count("rejected", 1)
		}
		kinds := grammar.Kinds(tr.Tokens)
		for k := 0; k+1 < len(kinds); k++ {
			c.Seen("token_bigrams", kinds[k]+" "+kinds[k+1])
		}
		if len(kinds) >= 3 {
			c.Nontrivial(string(in))
		}
		if want && len(kinds) >= 8 && c.WantSample() {
			c.Sample(map[string]any{"input": short(string(in), 300), "reference": "accept", "crd": "accept", "tokens": len(kinds)})
		} else if !want && len(kinds) >= 4 && c.WantSample() {
			c.Sample(map[string]any{"input": short(string(in), 300), "reference": "reject", "crd": "reject", "tokens": len(kinds)})
		}
		if want && tree && utf8.Valid(in) && (!viaCLI || o.Items != nil) {
			ref, ok := grammar.Tree(tr.Tokens)
			if !ok {
				c.Count("tree_shape_unknown_to_reference", 1)
				continue
			}
			if a, b := mustJSON(ref), mustJSON(o.Items); a != b {
				c.Violate(stream, idx, fmt.Sprintf("%s:tree:%s", class, qs(in)), fmt.Sprintf("the tree built for %s does not list what was written", qs(in)), map[string]any{"written": a, "tree": b})
				continue
			}
			c.Count("trees_compared", 1)
		}
	}
}

func mustJSON(v any) string {
	b, _ := json.Marshal(v)
	return string(b)
}

// itemsFromParseYAML converts the YAML printed by `crd text parse` into reference items.
func itemsFromParseYAML(b []byte) ([]grammar.Item, error) {
	m, err := yamlMap(b)
	if err != nil {
		return nil, err
	}
	val := func(v any) string {
		mm, _ := v.(map[string]any)
		if mm == nil {
			return ""
		}
		return asStr(mm["value"])
	}
	var out []grammar.Item
	for _, e := range asList(m["list"]) {
		em, _ := e.(map[string]any)
		var it grammar.Item
		if d, ok := em["degree"].(map[string]any); ok {
			it.Degree = val(d["degree"])
			it.Acc = val(d["accidental"])
		} else {
			it.Rest = true
		}
		if s, ok := em["symbol"].(map[string]any); ok {
			v := val(s["symbol"])
			it.Symbol = &v
		}
		if bs, ok := em["base"].(map[string]any); ok {
			it.HasBass = true
			d, _ := bs["degree"].(map[string]any)
			it.BassDeg = val(d["degree"])
			it.BassAcc = val(d["accidental"])
		}
		if vs, ok := em["values"].(map[string]any); ok {
			for _, v := range asList(vs["values"]) {
				vm, _ := v.(map[string]any)
				it.Values = append(it.Values, [2]string{val(vm["num"]), val(vm["denom"])})
			}
		}
		if mt, ok := em["meta"].(map[string]any); ok {
			it.HasMeta = true
			for _, d := range asList(mt["data"]) {
				dm, _ := d.(map[string]any)
				it.Meta = append(it.Meta, [2]string{val(dm["key"]), val(dm["value"])})
			}
		}
		out = append(out, it)
	}
	return out, nil
}

var charAlphabet = []string{"C", "R", "1", "0", "m", "#", "b", "/", "[", "]", ",", "_", "{", "}", "=", "k", ";", " ", "\n", "１", "\r"}

var tokenKinds = []string{"SYLLABLE", "SLASH", "LBRA", "RBRA", "COMMA", "SHARP", "FLAT", "NUMBER", "SYMBOL", "REST", "UNDERSCORE", "LCBRA", "RCBRA", "EQUAL", "METADATA"}

var lexemes = map[string][]string{
	"SYLLABLE": {"C", "D", "E", "F", "G", "A", "B"}, "SLASH": {"/"}, "LBRA": {"["}, "RBRA": {"]"}, "COMMA": {","},
	"SHARP": {"#", "♯"}, "FLAT": {"b", "♭"}, "NUMBER": {"1", "2", "4", "12", "07", "480", "3", "18446744073709551615", "18446744073709551616", "000000000000000000000000000000000000009", "99999999999999999999999999999999999999999"},
	"SYMBOL": {"m", "dim", "maj7", "aug", "sus4", "M7", "m7b5", "add9", "mM7", "m\u015b", "\u012f7", "\u043bad", "\u015f", "\u652f", "m\u00e9", "\u0394"}, "REST": {"R"}, "UNDERSCORE": {"_"},
	"LCBRA": {"{"}, "RCBRA": {"}"}, "EQUAL": {"="}, "METADATA": {"k", "key", "Am", "txt", "a b", "x;y", "120", "v w  x", "\u015b\u043d", "k\u017d", "\u652f\u042f"},
}

var symbolsAfterUnderscore = []string{"7", "9", "6", "7sus4", "m7", "b5", "C", "R", "#x", "{z", "]q", "1,2"}

// renderKinds renders a kind sequence with canonical (r == nil) or random lexemes;
// returns "" when no rendering tokenises back to the same kinds.
func renderKinds(kinds []string, r *rand.Rand) string {
	lex := make([]string, len(kinds))
	for i, k := range kinds {
		opts := lexemes[k]
		if k == "SYMBOL" && i > 0 && kinds[i-1] == "UNDERSCORE" && r != nil && r.Intn(2) == 0 {
			opts = symbolsAfterUnderscore
		}
		if len(opts) == 0 {
			return ""
		}
		if r == nil {
			lex[i] = opts[0]
		} else {
			lex[i] = opts[r.Intn(len(opts))]
		}
	}
	same := func(s string) bool {
		tr := grammar.Tokenize([]byte(s))
		if tr.LexErr || len(tr.Tokens) != len(kinds) {
			return false
		}
		for i, t := range tr.Tokens {
			if t.Kind != kinds[i] {
				return false
			}
		}
		return true
	}
	tight := strings.Join(lex, "")
	if same(tight) {
		return tight
	}
	// add a space only where needed
	var b strings.Builder
	for i, l := range lex {
		if i > 0 {
			cand := b.String() + l
			tr := grammar.Tokenize([]byte(cand))
			ok := !tr.LexErr && len(tr.Tokens) == i+1
			if ok {
				for j, t := range tr.Tokens {
					if t.Kind != kinds[j] {
						ok = false
					}
				}
			}
			if !ok {
				b.WriteByte(' ')
			}
		}
		b.WriteString(l)
	}
	if same(b.String()) {
		return b.String()
	}
	spaced := strings.Join(lex, " ")
	if same(spaced) {
		return spaced
	}
	return ""
}

func checkC04(c *core.Ctx) {
	c.Rule("differential against an independent recogniser (reference tokenizer + Earley over the rules extracted from the current chords.y): (1) every string over a 21-symbol alphabet (incl. a non-ASCII digit and CR) up to length 4 (quick) / 5 (thorough); (2) every sequence of token kinds up to length 4 / 6 rendered with canonical lexemes; (3) every grammar sentence up to 11 / 13 tokens plus all single-token deletions, insertions, substitutions, swaps, duplications and every proper byte prefix; (4) long generated pieces with random trivia whose tree is compared field by field with what was written; (4b) runes sharing their low byte with a character of the language (7 planes x 36 characters x 16 positions), NUMBER tokens beyond 64 bits, megabyte texts; (5) goyacc regenerated from chords.y and compared byte for byte with the committed parser. " +
		"Library level (ast.Parse in a worker process) with a seeded sample repeated through `crd text parse` over four input paths (stdin, -, FILE, FILE that is a pipe). non-trivial = input with >= 3 tokens; distinct by input string")
	c.Assume("grammar.Tokenize implements the documented tokenisation (DESIGN.md section 4, C04)", "grammar.ParseYacc extracts the rules of the current chords.y", "Earley recogniser", "token positions and numeric token codes are not part of the property")

	g, err := grammar.LoadYacc(filepath.Join(c.Repo, "input", "ast", "chords.y"))
	if err != nil {
		c.Inconclusive("cannot extract the grammar from chords.y: " + err.Error())
		return
	}
	nr := 0
	for _, a := range g.Rules {
		nr += len(a)
	}
	c.Extra("grammar_rules", nr)
	c.Extra("grammar_terminals", len(g.Terminals))
	if c.Worker == "" {
		c.Extra("library_level", "worker does not build against the current tree: all inputs go through the CLI (sampled)")
	}

	// (5) regeneration
	c.StreamSeq("goyacc", 1, func(_ int, _ *rand.Rand) { regenerateParser(c) })

	// (1) characters
	L := c.N(4, 5)
	if c.Worker == "" {
		L = 3
	}
	var chars [][]byte
	var rec func(prefix []byte, left int)
	rec = func(prefix []byte, left int) {
		if len(prefix) > 0 {
			chars = append(chars, append([]byte(nil), prefix...))
		}
		if left == 0 {
			return
		}
		for _, a := range charAlphabet {
			rec(append(prefix, a...), left-1)
		}
	}
	rec(nil, L)
	c.Extra("char_strings", len(chars))
	shards := 64
	c.Stream("chars", shards, func(sh int, _ *rand.Rand) {
		var mine [][]byte
		for i := sh; i < len(chars); i += shards {
			mine = append(mine, chars[i])
		}
		judgeParse(c, g, "chars", sh, mine, true, "chars")
	})

	// (2) token kinds
	TL := c.N(4, 6)
	if c.Worker == "" {
		TL = 3
	}
	c.Stream("tokens", shards, func(sh int, _ *rand.Rand) {
		var mine [][]byte
		idx := 0
		var rec func(prefix []string, left int)
		rec = func(prefix []string, left int) {
			if len(prefix) > 0 {
				idx++
				if idx%shards == sh {
					if s := renderKinds(prefix, nil); s != "" {
						mine = append(mine, []byte(s))
					}
				}
			}
			if left == 0 {
				return
			}
			for _, k := range tokenKinds {
				rec(append(prefix, k), left-1)
			}
		}
		rec(nil, TL)
		c.Count("token_sequences_rendered", len(mine))
		judgeParse(c, g, "tokens", sh, mine, true, "tokens")
	})

	// (3) sentences and their neighbourhood
	SL := c.N(11, 13)
	sents := g.Sentences(SL, 0)
	c.Extra("grammar_sentences", len(sents))
	c.Extra("sentence_max_tokens", SL)
	c.Stream("sentences", shards, func(sh int, r *rand.Rand) {
		var mine [][]byte
		for i := sh; i < len(sents); i += shards {
			s := sents[i]
			if hasKind(s, "SEMICOLON") {
				continue
			}
			txt := renderKinds(s, r)
			if txt == "" {
				continue
			}
			mine = append(mine, []byte(txt))
			if acc, _ := g.Accept([]byte(txt)); !acc {
				c.Inconclusive("harness: rendered sentence not accepted by the reference: " + txt)
				return
			}
			// neighbourhood on a seeded subset (all sentences in thorough up to 8 tokens)
			if len(s) <= 8 || r.Intn(4) == 0 {
				for _, m := range mutateKinds(s, r, c.Quick()) {
					if t := renderKinds(m, r); t != "" {
						mine = append(mine, []byte(t))
					}
				}
				b := []byte(txt)
				for cut := 1; cut < len(b); cut++ {
					mine = append(mine, b[:cut])
				}
			}
		}
		judgeParse(c, g, "sentences", sh, dedup(mine), true, "sentences")
	})

	// (4) long pieces with trivia
	c.Stream("long", c.N(400, 8000)/20, func(i int, r *rand.Rand) {
		var mine [][]byte
		for k := 0; k < 20; k++ {
			txt := randomChordText(r, 1+r.Intn(c.N(60, 200)), true)
			mine = append(mine, []byte(txt))
		}
		judgeParse(c, g, "long", i, mine, true, "long")
	})
	// trivia and separators injected at arbitrary byte positions of valid texts (also inside tokens,
	// after `_`, inside {}): the reference decides what each result means
	c.Stream("inject", c.N(40, 600), func(i int, r *rand.Rand) {
		var mine [][]byte
		inj := []string{" ", "\n", "\t", "\r", "\r\n", ";c\n", ";", ";a\n;b\n", "\u00a0", "\u3000", "\f", "\v", "_", "/", "[", "]", "{", "}", "=", ",", "#", "b", "♯", "１", "٣", "0"}
		for k := 0; k < 60; k++ {
			b := []byte(randomChordText(r, 1+r.Intn(3), r.Intn(2) == 0))
			for m := 0; m < 1+r.Intn(2); m++ {
				pos := r.Intn(len(b) + 1)
				for !utf8.RuneStart(append(b, 'x')[pos]) {
					pos--
				}
				what := inj[r.Intn(len(inj))]
				if r.Intn(4) == 0 {
					what = string(lowByteRune(r))
				}
				b = append(b[:pos], append([]byte(what), b[pos:]...)...)
			}
			mine = append(mine, b)
		}
		judgeParse(c, g, "inject", i, dedup(mine), true, "inject")
	})
	// runes that share their low byte (or their UTF-8 lead/continuation bytes) with a character of the
	// language are ordinary runes: every significant ASCII character x five planes x the places a rune can stand
	c.Stream("lowbyte", len(lowBytePlanes), func(i int, _ *rand.Rand) {
		var mine [][]byte
		for _, ch := range significantASCII {
			ru := lowBytePlanes[i] + rune(ch)
			if !utf8.ValidRune(ru) {
				continue
			}
			x := string(ru)
			for _, t := range []string{"C" + x + "[1]", "Cm" + x + "7/B[1]", "1" + x + "[1]", "C_" + x + "[1]", "C_7" + x + "[1]", "C[1] " + x + " D[", "R[2] " + x + "]]]", "C[1]" + x, x + "C[1]", "C[1" + x + "]", "C[1]{k" + x + "=v" + x + "}", "C[1]{" + x + "=" + x + "}", "C[1]{k=v" + x + ",l=w}", "C#" + x + "[1]", "C/" + x + "[1]", "C[1] ;" + x + "\nD[1]"} {
				mine = append(mine, []byte(t))
			}
		}
		judgeParse(c, g, "lowbyte", i, dedup(mine), true, "lowbyte")
	})
	// every input path of the command line, on a fixed set of sentences and non-sentences (the other streams pick one
	// path per text): a byte order mark in front of the text is a symbol rune like any other and makes it a non-sentence
	pathTexts := []string{"C[1]", "C[1] Am7/G[2]\nR[1] F#m7b5[1/2,1/2]{txt=hello}\n", "1[1] 5_7/7[2] R[4]\n", ";title\n\nC[1]\n\n;end", "Bb_sus4[3/4]{key=Gm,bpm=96}", "R[1]",
		"C[1", "C[1] D[", "[1]", "C{a=b}", "C[1]]", "C[1] ;x\n{a=b}", "",
		"\ufeffC[1]", "\ufeff; title\n1[1] 5_7[2]", "\ufeff", "C[1]\ufeff", "\ufeff\nC[1] D[2]\n"}
	c.Stream("paths", len(pathTexts)*cliPaths, func(i int, _ *rand.Rand) {
		in, h := []byte(pathTexts[i/cliPaths]), uint32(i%cliPaths)
		want, _ := g.Accept(in)
		acc, abn, res := cliParsePath(c, in, h)
		c.Eval(1)
		if abn == "infra" {
			return
		}
		sig := fmt.Sprintf("paths:%d:%s", h, qs(in))
		if abn != "" {
			c.Violate("paths", i, sig+":abnormal", fmt.Sprintf("crd text parse on %s (input path %d) %s", qs(in), h, abn), obs(res))
			return
		}
		if acc != want {
			c.Violate("paths", i, sig+":verdict", fmt.Sprintf("crd text parse (input path %d) accepts=%v, the grammar accepts=%v: %s", h, acc, want, qs(in)), obs(res))
			return
		}
		c.Nontrivial(sig)
	})
	// the tree written with -o onto the file the text came from (same path, another spelling of it, a symbolic
	// link, a hard link, the file as standard input): the verdict and the tree are those of the text
	c.Stream("inplace", c.N(80, 800), func(i int, r *rand.Rand) {
		txt := []byte(randomChordText(r, 1+r.Intn(6), true))
		if i%4 == 3 {
			// a non-sentence: cut inside the last chord
			txt = txt[:len(txt)-1-r.Intn(min(3, len(txt)-1))]
		}
		want, tr := g.Accept(txt)
		dir := c.Scratch.Path("inplace")
		os.MkdirAll(filepath.Join(dir, "sub"), 0o755)
		song := filepath.Join(dir, "song.txt")
		os.WriteFile(song, txt, 0o644)
		out := song
		var res *runner.Result
		kind := []string{"same-path", "other-spelling", "symlink", "hardlink", "stdin-redirect"}[i%5]
		switch kind {
		case "other-spelling":
			out = filepath.Join(dir, "sub") + "/../song.txt"
		case "symlink":
			out = filepath.Join(dir, "link.txt")
			os.Symlink(song, out)
		case "hardlink":
			out = filepath.Join(dir, "hard.txt")
			os.Link(song, out)
		}
		if kind == "stdin-redirect" {
			res = c.Crd.Run(runner.Opt{Redirect: "<" + song}, "text", "parse", "-o", song)
		} else {
			res = run(c, nil, "text", "parse", song, "-o", out)
		}
		c.Eval(1)
		if res.WallKill || res.StartErr != nil {
			return
		}
		class := "inplace:" + kind
		if a := abnormal(res); a != "" {
			c.Violate("inplace", i, class+":abnormal", fmt.Sprintf("crd text parse FILE -o (%s) on %s %s", kind, qs(txt), a), obs(res))
			return
		}
		if res.OK() != want {
			c.Violate("inplace", i, class+":accept", fmt.Sprintf("crd text parse with -o naming its own input (%s) accepts=%v, the grammar accepts=%v: %s", kind, res.OK(), want, qs(txt)), obs(res))
			return
		}
		if want && utf8.Valid(txt) {
			items, err := itemsFromParseYAML(readFileOrNil(song))
			ref, ok := grammar.Tree(tr.Tokens)
			if err != nil || (ok && mustJSON(items) != mustJSON(ref)) {
				c.Violate("inplace", i, class+":tree", fmt.Sprintf("crd text parse with -o naming its own input (%s): the tree left in the file does not list what %s says (err=%v)", kind, qs(txt), err), obs(res))
				return
			}
			c.Count("trees_compared", 1)
		}
		c.Nontrivial(fmt.Sprintf("inplace%d", i))
	})
	// texts far beyond any buffer size (1 MiB and more, mostly comments and blank lines, which are cheap to
	// write but still have to be read): nothing behind the padding may be dropped or invented
	hugeCases := c.N(2, 6)
	c.Stream("huge", hugeCases, func(i int, r *rand.Rand) {
		size := []int{1100000, 2300000, 1100000, 600000, 1500000, 4300000}[i%6]
		var b bytes.Buffer
		b.WriteString("C[1] ;first\n")
		line := ";" + strings.Repeat("padding ", 15) + "\n"
		for b.Len() < size {
			b.WriteString(line)
			if r.Intn(50) == 0 {
				b.WriteString("\n\t  \n")
			}
		}
		tails := []struct {
			tail   string
			accept bool
			items  int
		}{{"Dm7/A[1,1/2]{k=v} R[2]\n", true, 3}, {"D[", false, 0}, {"D[1] ]", false, 0}, {"Em[2] ;end", true, 2}}
		tc := tails[(i/1+r.Intn(2)*2)%len(tails)]
		b.WriteString(tc.tail)
		in := b.Bytes()
		var res *runner.Result
		if i%2 == 0 {
			res = runCPU(c, 300, in, "text", "parse")
		} else {
			res = runCPU(c, 300, nil, "text", "parse", c.Scratch.File("huge.txt", in))
		}
		c.Eval(1)
		if res.WallKill || res.StartErr != nil {
			c.Inconclusive("watchdog on a huge input")
			return
		}
		sig := fmt.Sprintf("huge:%d:%v", size, tc.accept)
		if a := abnormal(res); a != "" {
			c.Violate("huge", i, sig+":abnormal", fmt.Sprintf("crd text parse on a %d byte text %s", len(in), a), obs(res))
			return
		}
		if res.OK() != tc.accept {
			c.Violate("huge", i, sig+":accept", fmt.Sprintf("a %d byte text (comments, then %q) is accepted=%v, the grammar says %v", len(in), tc.tail, res.OK(), tc.accept), obs(res))
			return
		}
		if tc.accept {
			items, err := itemsFromParseYAML(res.Stdout)
			if err != nil || len(items) != tc.items {
				c.Violate("huge", i, sig+":tree", fmt.Sprintf("a %d byte text with %d chords/rests gives a tree with %d (err=%v)", len(in), tc.items, len(items), err), nil)
				return
			}
		}
		c.Nontrivial(fmt.Sprintf("huge%d", i))
		c.Extra("huge_input_cpu_ms", res.CPUms)
	})
	// millions of comment lines in a row (thorough tier only: a minute of CPU each): still a sentence
	if !c.Quick() {
		c.StreamSeq("deepcomments", 2, func(i int, _ *rand.Rand) {
			n := []int{12000000, 16000000}[i]
			in := append(bytes.Repeat([]byte(";\n"), n), []byte([]string{"C[1]", "C[1] D["}[i])...)
			res := runCPU(c, 900, nil, "text", "parse", c.Scratch.File("deep.txt", in))
			c.Eval(1)
			if res.WallKill || res.StartErr != nil {
				c.Inconclusive("watchdog on the deep comment input")
				return
			}
			if a := abnormal(res); a != "" {
				c.Violate("deepcomments", i, "deepcomments:abnormal", fmt.Sprintf("crd text parse on %d comment lines followed by a chord %s", n, a), map[string]any{"stderr": short(string(res.Stderr), 400), "exit": res.Exit})
				return
			}
			if res.OK() != (i == 0) {
				c.Violate("deepcomments", i, "deepcomments:accept", fmt.Sprintf("%d comment lines followed by %q: accepted=%v", n, []string{"C[1]", "C[1] D["}[i], res.OK()), nil)
				return
			}
			c.Nontrivial(fmt.Sprintf("deep%d", i))
		})
	}
	// invalid UTF-8 and odd runes: accept/reject only
	c.Stream("bytes", c.N(8, 64), func(i int, r *rand.Rand) {
		var mine [][]byte
		for k := 0; k < 50; k++ {
			b := []byte(randomChordText(r, 1+r.Intn(4), true))
			for m := 0; m < 1+r.Intn(3); m++ {
				pos := r.Intn(len(b) + 1)
				ins := [][]byte{{0xff}, {0xc0, 0x80}, {0xed, 0xa0, 0x80}, {0x80}, {0}, {0xe2, 0x99}, []byte("\u00a0"), []byte(" "), []byte("\ufeff"), []byte("\r"), []byte("♯"), []byte("♭"), []byte("𝄪")}[r.Intn(13)]
				b = append(b[:pos], append(append([]byte{}, ins...), b[pos:]...)...)
			}
			mine = append(mine, b)
		}
		judgeParse(c, g, "bytes", i, mine, false, "bytes")
	})
}

func hasKind(s []string, k string) bool {
	for _, x := range s {
		if x == k {
			return true
		}
	}
	return false
}

func dedup(in [][]byte) [][]byte {
	seen := map[string]bool{}
	var out [][]byte
	for _, b := range in {
		if !seen[string(b)] {
			seen[string(b)] = true
			out = append(out, b)
		}
	}
	return out
}

// mutateKinds returns the single-token neighbourhood of a sentence.
func mutateKinds(s []string, r *rand.Rand, sample bool) [][]string {
	var out [][]string
	cp := func(x []string) []string { return append([]string(nil), x...) }
	for i := range s {
		// deletion
		out = append(out, append(cp(s[:i]), s[i+1:]...))
		// duplication
		d := append(cp(s[:i+1]), s[i:]...)
		out = append(out, d)
		// swap
		if i+1 < len(s) && s[i] != s[i+1] {
			w := cp(s)
			w[i], w[i+1] = w[i+1], w[i]
			out = append(out, w)
		}
		// substitution / insertion
		ks := tokenKinds
		if sample {
			ks = []string{tokenKinds[r.Intn(len(tokenKinds))], tokenKinds[r.Intn(len(tokenKinds))]}
		}
		for _, k := range ks {
			if k != s[i] {
				w := cp(s)
				w[i] = k
				out = append(out, w)
			}
			ins := append(cp(s[:i]), append([]string{k}, s[i:]...)...)
			out = append(out, ins)
		}
	}
	for _, k := range tokenKinds {
		out = append(out, append(cp(s), k))
	}
	return out
}

// regenerateParser runs goyacc on the current grammar in a scratch copy and
// compares the result with the committed parser.
func regenerateParser(c *core.Ctx) {
	c.Eval(1)
	dir := c.Scratch.Path("goyacc")
	astDir := filepath.Join(dir, "input", "ast")
	if err := os.MkdirAll(astDir, 0o755); err != nil {
		c.Inconclusive("goyacc scratch: " + err.Error())
		return
	}
	for _, f := range []string{"go.mod", "go.sum"} {
		b, err := os.ReadFile(filepath.Join(c.Repo, f))
		if err != nil {
			c.Inconclusive("goyacc scratch: " + err.Error())
			return
		}
		os.WriteFile(filepath.Join(dir, f), b, 0o644)
	}
	y, err := os.ReadFile(filepath.Join(c.Repo, "input", "ast", "chords.y"))
	if err != nil {
		c.Inconclusive("chords.y unreadable: " + err.Error())
		return
	}
	os.WriteFile(filepath.Join(astDir, "chords.y"), y, 0o644)
	gobin := os.Getenv("VERIF_GO")
	if gobin == "" {
		gobin = "go"
	}
	cmd := exec.Command(gobin, "tool", "goyacc", "-o", "chords_goyacc_generated.go", "-v", "chords_goyacc_generated.output", "chords.y")
	cmd.Dir = astDir
	cmd.Env = append(os.Environ(), "GOFLAGS=-mod=mod", "GOPROXY=off")
	outb, err := cmd.CombinedOutput()
	if err != nil {
		// goyacc itself refusing the grammar means the shipped parser cannot be its output
		if _, statErr := os.Stat(filepath.Join(astDir, "chords_goyacc_generated.go")); statErr != nil && bytes.Contains(outb, []byte("chords.y")) {
			c.Violate("goyacc", 0, "goyacc:rejects-grammar", "goyacc rejects the current chords.y: "+core.Trunc(outb, 400), nil)
			return
		}
		c.Inconclusive("go tool goyacc could not be run: " + core.Trunc(outb, 300))
		return
	}
	if bytes.Contains(outb, []byte("conflict")) {
		c.Violate("goyacc", 0, "goyacc:conflicts", "goyacc reports conflicts for chords.y: "+core.Trunc(outb, 300), nil)
	}
	gen, err1 := os.ReadFile(filepath.Join(astDir, "chords_goyacc_generated.go"))
	com, err2 := os.ReadFile(filepath.Join(c.Repo, "input", "ast", "chords_goyacc_generated.go"))
	if err1 != nil || err2 != nil {
		c.Inconclusive(fmt.Sprintf("goyacc comparison: %v %v", err1, err2))
		return
	}
	if !bytes.Equal(gen, com) {
		// locate the first differing line for the message
		gl, cl := strings.Split(string(gen), "\n"), strings.Split(string(com), "\n")
		line := 0
		for line < len(gl) && line < len(cl) && gl[line] == cl[line] {
			line++
		}
		det := map[string]any{"first_differing_line": line + 1}
		if line < len(gl) {
			det["regenerated"] = short(gl[line], 200)
		}
		if line < len(cl) {
			det["committed"] = short(cl[line], 200)
		}
		c.Violate("goyacc", 0, "goyacc:differs", fmt.Sprintf("the committed parser is not what goyacc generates from chords.y (first difference at line %d)", line+1), det)
		return
	}
	c.Count("goyacc_bytes_compared", len(gen))
	c.Nontrivial("goyacc-regeneration")
}

// significantASCII lists the ASCII characters the chord language gives a meaning to.
var significantASCII = []byte("/[]_;={},#b \t\n\r0123456789RABCDEFG")

// lowBytePlanes are code point bases: base+ch keeps ch as low byte.
var lowBytePlanes = []rune{0x0100, 0x0400, 0x1E00, 0x6500, 0x1F600, 0x0200, 0x3000}

func lowByteRune(r *rand.Rand) rune {
	for {
		ru := lowBytePlanes[r.Intn(len(lowBytePlanes))] + rune(significantASCII[r.Intn(len(significantASCII))])
		if utf8.ValidRune(ru) {
			return ru
		}
	}
}
