package main

import (
	"bytes"
	"fmt"
	"math/rand"
	"reflect"
	"strings"

	"verif/core"
	"verif/model"
	"verif/runner"
	"verif/smfdec"
	"verif/theory"
)

func init() { register("C05", checkC05) }

// wrapInterval reports the two intervals whose size leaves 0..11 although the number is <= 7
// (diminished unison, augmented seventh): kept as their own class.
func wrapInterval(i theory.Interval) bool {
	s, _ := theory.Size(i.N, i.Q)
	return i.N <= 7 && (s < 0 || s > 11)
}

func checkC05(c *core.Ctx) {
	c.Rule("progressions from the piece model (roots and basses on 1..7 natural, flattened or sharpened, any dictionary symbol, rests, metadata, 0..3 key changes incl. on rests and on the first chord) rendered once with degree numbers and once with note names in a random start key (a third of them with the unicode accidental signs); `text conv degree` and `text conv syllable --key K` must print the same instances; " +
		"and the same instances played with --key K1 and --key K2 must differ only by the tonic distance on every pitch sounded while the initial key is in force and by the key signature at tick 0 (all 28x28 key pairs in thorough), on 1..11 tracks compared track by track, every fourth case through `write conv -c cmt --key K | write`; " +
		"non-trivial = progression with an altered root, a bass and a key change; distinct by degree text")
	c.Assume("model.NoteFor spells the note for an interval with at most one accidental (cases needing a double accidental are skipped and counted)", "yaml.v3 as reader", "smfdec")

	keys := theory.Supported()
	c.Stream("notation", c.N(4000, 100000), func(i int, r *rand.Rand) {
		p := model.RandPiece(r, model.GenOpts{MinLen: 1, MaxLen: 10, RestProb: 0.2, SettingProb: 0.1, TextProb: 0.15, KeyChanges: false, BassProb: 0.5, MaxDeg: 7, SimpleOnly: true, TextSafe: true})
		// 0..3 key changes anywhere
		for k := r.Intn(4); k > 0; k-- {
			p.Inst[r.Intn(len(p.Inst))].Key = model.RandKey(r)
		}
		for j := range p.Inst {
			if ch := p.Inst[j].Chord; ch != nil && ch.Bass != nil && ch.Bass.N > 7 {
				ch.Bass.N -= 7
			}
		}
		// symbols outside the dictionary (text conv does not look them up) that start with an accidental sign, next to
		// the same symbols without it: E_b9 and Eb_9 are different chords
		if i%4 == 1 {
			odd := []string{"b9", "9", "#5", "5", "♭5", "#11", "11", "b13", "13"}
			for j := range p.Inst {
				if ch := p.Inst[j].Chord; ch != nil && r.Intn(2) == 0 {
					ch.Symbol = odd[r.Intn(len(odd))]
				}
			}
			// and, in one key section, the pairs whose spellings run together: natural degree n with b9 / lowered n
			// with 9, natural n with #5 / raised n with 5 (which of them meet on one letter depends on the key)
			n := []int{2, 3, 6, 7}[r.Intn(4)]
			quad := []model.ChordSpec{
				{Deg: theory.Interval{N: n, Q: theory.Major}, Symbol: "b9"}, {Deg: theory.Interval{N: n, Q: theory.Minor}, Symbol: "9"},
				{Deg: theory.Interval{N: n, Q: theory.Major}, Symbol: "#5"}, {Deg: theory.Interval{N: n, Q: theory.Augmented}, Symbol: "5"},
				{Deg: theory.Interval{N: n, Q: theory.Minor}, Symbol: "#5"}, {Deg: theory.Interval{N: n, Q: theory.Major}, Symbol: "5"},
				{Deg: theory.Interval{N: n, Q: theory.Augmented}, Symbol: "b9"}, {Deg: theory.Interval{N: n, Q: theory.Major}, Symbol: "9"},
			}
			r.Shuffle(len(quad)/2, func(a, b int) {
				quad[2*a], quad[2*a+1], quad[2*b], quad[2*b+1] = quad[2*b], quad[2*b+1], quad[2*a], quad[2*a+1]
			})
			for k := range quad {
				q := quad[k]
				p.Inst = append(p.Inst, model.Instance{Chord: &q, Values: []model.Frac{{Num: 1, Den: 1}}})
			}
		}
		start := keys[r.Intn(len(keys))].String()
		// every seventh piece states its settings twice in one pair of braces ({key=G,key=D}): the last one counts
		dup := i%7 == 3
		dt, ok1 := p.DegreeTextPiece(model.TextOpts{UnicodeAcc: i%5 == 4, DupSettings: dup})
		st, ok2 := p.SyllableTextPiece(start, model.TextOpts{UnicodeAcc: i%3 == 2, DupSettings: dup})
		if !ok1 || !ok2 {
			c.Count("skipped_needs_double_accidental", 1)
			return
		}
		wrap := false
		altered, bass, keych := false, false, false
		for _, in := range p.Inst {
			if in.Key != "" {
				keych = true
			}
			if in.Chord != nil {
				if wrapInterval(in.Chord.Deg) || (in.Chord.Bass != nil && wrapInterval(*in.Chord.Bass)) {
					wrap = true
				}
				if in.Chord.Deg.Q != theory.Major && in.Chord.Deg.Q != theory.Perfect {
					altered = true
				}
				if in.Chord.Bass != nil {
					bass = true
				}
			}
		}
		rd := run(c, []byte(dt), "text", "conv", "degree")
		sargs := []string{"text", "conv", "syllable", "--key", start}
		if i%5 == 2 {
			sargs = append(sargs, "--debug") // log lines on stderr only, the result is the same
		}
		rs := run(c, []byte(st), sargs...)
		c.Eval(2)
		if infra(c, rd) || infra(c, rs) {
			return
		}
		if i%4 == 1 && rs.OK() {
			// the note names again, written with -o (FILE argument, existing older file): what the file holds is what
			// the standard output carried
			out := c.Scratch.File("names.yml", []byte("- values: [9]\n- values: [9]\n"))
			ro := run(c, nil, append(append([]string{}, sargs...), "-o", out, c.Scratch.File("names.txt", []byte(st)))...)
			c.Eval(1)
			if infra(c, ro) {
				return
			}
			if got := readFileOrNil(out); !ro.OK() || !bytes.Equal(got, rs.Stdout) {
				c.Violate("notation", i, "notation:o-file", fmt.Sprintf("text conv syllable --key %s -o FILE (ok=%v) leaves other instances in the file than it prints to the standard output: %s (%q)", start, ro.OK(), firstLineDiff(rs.Stdout, got), short(st, 200)), map[string]any{"note_text": st, "key": start, "run": obs(ro)})
				return
			}
		}
		class := "notation"
		if wrap {
			class = "notation:wraparound-interval"
		}
		det := map[string]any{"degree_text": dt, "note_text": st, "key": start, "degree_run": obs(rd), "note_run": obs(rs)}
		if a := abnormal(rd); a != "" {
			c.Violate("notation", i, class+":abnormal", "text conv degree "+a, det)
			return
		}
		if a := abnormal(rs); a != "" {
			c.Violate("notation", i, class+":abnormal", "text conv syllable "+a, det)
			return
		}
		if !rd.OK() && !rs.OK() {
			c.Count("both_notations_refused", 1)
			return
		}
		if !rd.OK() || !rs.OK() {
			c.Violate("notation", i, class+":one-fails", fmt.Sprintf("the same progression converts from degrees=%v but from note names in %s=%v: %q vs %q", rd.OK(), start, rs.OK(), short(dt, 200), short(st, 200)), det)
			return
		}
		a, err1 := yamlList(rd.Stdout)
		b, err2 := yamlList(rs.Stdout)
		if err1 != nil || err2 != nil {
			c.Violate("notation", i, class+":yaml", fmt.Sprintf("conversion output unreadable: %v %v", err1, err2), det)
			return
		}
		if !reflect.DeepEqual(a, b) {
			c.Violate("notation", i, class+":differ", fmt.Sprintf("degrees and note names in %s give different instances: %s (%q vs %q)", start, firstLineDiff(rd.Stdout, rs.Stdout), short(dt, 200), short(st, 200)), det)
			return
		}
		if bytes.Equal(rd.Stdout, rs.Stdout) {
			c.Count("byte_identical", 1)
		}
		c.Seen("start_keys", start)
		if altered && bass && keych {
			c.Nontrivial(dt)
		}
		if c.WantSample() {
			c.Sample(map[string]any{"degree_text": short(dt, 300), "note_text": short(st, 300), "key": start})
		}
	})

	// a piece of more than 65,536 chords that leaves its starting key early on: the key in force is carried to the
	// very end, in note names as in degrees
	c.Stream("verylong", c.N(1, 4), func(i int, r *rand.Rand) {
		k1, k2 := keys[r.Intn(len(keys))], keys[r.Intn(len(keys))]
		n := 70000 + r.Intn(3000)
		var p model.Piece
		for j := 0; j < n; j++ {
			in := model.Instance{Chord: &model.ChordSpec{Deg: theory.Interval{N: 1 + j%7, Q: []theory.Quality{theory.Perfect, theory.Major, theory.Major, theory.Perfect, theory.Perfect, theory.Major, theory.Major}[j%7]}, Symbol: []string{"", "m", "7"}[j%3]}, Values: []model.Frac{{Num: 1, Den: 1}}}
			if j == 16+i {
				in.Key = k2.String()
			}
			if j%97 == 50 {
				in.Chord = nil
			}
			p.Inst = append(p.Inst, in)
		}
		dt, ok1 := p.DegreeTextPiece(model.TextOpts{Sep: "\n"})
		st, ok2 := p.SyllableTextPiece(k1.String(), model.TextOpts{Sep: "\n"})
		if !ok1 || !ok2 {
			return
		}
		rd := c.Crd.Run(runner.Opt{Stdin: []byte(dt), CPUSec: 300}, "text", "conv", "degree")
		rs := c.Crd.Run(runner.Opt{Stdin: []byte(st), CPUSec: 300}, "text", "conv", "syllable", "--key", k1.String())
		c.Eval(2)
		if infra(c, rd) || infra(c, rs) {
			return
		}
		det := map[string]any{"chords": n, "start_key": k1.String(), "second_key": k2.String(), "degree_run": short(string(rd.Stderr), 300), "note_run": short(string(rs.Stderr), 300)}
		if a := abnormal(rd) + abnormal(rs); a != "" || !rd.OK() || !rs.OK() {
			c.Violate("verylong", i, "verylong:failed", fmt.Sprintf("a piece of %d chords (%s, then %s from chord %d on) is not converted: degrees ok=%v, note names ok=%v %s", n, k1, k2, 16+i, rd.OK(), rs.OK(), a), det)
			return
		}
		if !bytes.Equal(rd.Stdout, rs.Stdout) {
			c.Violate("verylong", i, "verylong:differ", fmt.Sprintf("a piece of %d chords (%s, then %s from chord %d on) converts differently from degrees and from note names: %s", n, k1, k2, 16+i, firstLineDiff(rd.Stdout, rs.Stdout)), det)
			return
		}
		c.Nontrivial(fmt.Sprintf("verylong%d", i))
	})

	// playback in two keys
	pairs := len(keys) * len(keys)
	nPlay := c.N(1500, 20000)
	c.Stream("transpose", nPlay, func(i int, r *rand.Rand) {
		var k1, k2 theory.Key
		if !c.Quick() && i < pairs {
			k1, k2 = keys[i/len(keys)], keys[i%len(keys)]
		} else {
			k1, k2 = keys[r.Intn(len(keys))], keys[r.Intn(len(keys))]
		}
		p := model.RandPiece(r, model.GenOpts{MinLen: 1, MaxLen: 10, RestProb: 0.2, SettingProb: 0.15, TextProb: 0.1, KeyChanges: false, BassProb: 0.5, MaxDeg: 9})
		nk := r.Intn(3)
		for k := 0; k < nk; k++ {
			p.Inst[r.Intn(len(p.Inst))].Key = model.RandKey(r)
		}
		f1, f2 := model.Flags{Key: k1.String()}, model.Flags{Key: k2.String()}
		if r.Intn(3) == 0 {
			// the instrument has no say in the pitches
			pg := []int{0, 24, 100, 119, 120, 123, 127}[r.Intn(7)]
			f1.Program, f2.Program = &pg, &pg
		}
		if !p.Effective(f1).AllInRange() || !p.Effective(f2).AllInRange() {
			c.Count("skipped_out_of_range", 1)
			return
		}
		// track counts: the voices of a chord are spread over tracks by their position in the chord, never by pitch
		tracks := []int{1, 1, 1, 2, 3, 4, 5, 6, 8, 11}[r.Intn(10)]
		wo := writeOpts{}
		if tracks > 1 {
			wo.extra = []string{"--track", fmt.Sprint(tracks)}
		}
		// every fourth case takes the two-step route: write conv --key K annotates the instances, write plays them
		viaConv := i%4 == 3
		if viaConv {
			// metadata strings of the class of known finding F-17 (judged by C10) do not survive any YAML-to-YAML step
			for j := range p.Inst {
				for k, v := range p.Inst[j].Meta {
					if strings.Contains(v, "\n") && (strings.HasPrefix(v, "\n") || strings.HasPrefix(v, "\t") || strings.HasPrefix(v, "\r")) {
						p.Inst[j].Meta[k] = "plain"
					}
				}
			}
		}
		play := func(f model.Flags) (*runner.Result, []byte) {
			if !viaConv {
				return playPiece(c, p, f, wo)
			}
			cv := run(c, p.YAML(model.YAMLStyle{}), append([]string{"write", "conv", "--command", "cmt"}, f.Args()...)...)
			c.Eval(1)
			if !cv.OK() || abnormal(cv) != "" {
				return cv, nil
			}
			w := run(c, cv.Stdout, append([]string{"write"}, wo.extra...)...)
			c.Eval(1)
			return w, w.Stdout
		}
		r1, o1 := play(f1)
		r2, o2 := play(f2)
		if infra(c, r1) || infra(c, r2) {
			return
		}
		sig := "transpose"
		det := withYAML(map[string]any{"k1": k1.String(), "k2": k2.String(), "tracks": tracks, "via_write_conv": viaConv}, p)
		if a := abnormal(r1); a != "" || !r1.OK() {
			c.Violate("transpose", i, sig+":failed", "crd write --key "+k1.String()+" fails "+a, det)
			return
		}
		if a := abnormal(r2); a != "" || !r2.OK() {
			c.Violate("transpose", i, sig+":failed", "crd write --key "+k2.String()+" fails "+a, det)
			return
		}
		fa, e1 := decodeSMF(o1)
		fb, e2 := decodeSMF(o2)
		if fa == nil || fb == nil {
			c.Violate("transpose", i, sig+":decode", e1+e2, det)
			return
		}
		// first instance (after the first) that sets a key: from its chord run on, pitches are absolute
		firstChange := -1
		chordNo := 0
		for j, in := range p.Inst {
			if j > 0 && in.Key != "" && firstChange < 0 {
				firstChange = chordNo
			}
			if in.Chord != nil {
				chordNo++
			}
		}
		shift := k1.TonicOffset() - k2.TonicOffset()
		if viaConv {
			// the conversion adds a txt with the chord's spelling in the key: texts differ by design, compare the music
			for _, f := range []*smfdec.File{fa, fb} {
				for t := range f.Tracks {
					var keep []smfdec.Event
					for _, e := range f.Tracks[t].Events {
						if e.Kind == smfdec.Meta && e.MetaType == 0x01 {
							continue
						}
						keep = append(keep, e)
					}
					f.Tracks[t].Events = keep
				}
			}
		}
		if len(fa.Tracks) != tracks || len(fb.Tracks) != tracks {
			c.Violate("transpose", i, sig+":tracks", fmt.Sprintf("--track %d gives %d and %d tracks", tracks, len(fa.Tracks), len(fb.Tracks)), det)
			return
		}
		if tracks > 1 {
			// several tracks: chords are told apart by time. Pitches are relative to the initial key before the
			// start tick of the first key-changing instance, absolute from there on.
			changeTick := uint64(1) << 62
			if firstChange >= 0 {
				ss := model.StartSets(int(fa.Division), p)
				for j, in := range p.Inst {
					if j > 0 && in.Key != "" {
						if len(ss[j]) != 1 {
							c.Count("skipped_ambiguous_start", 1)
							return
						}
						changeTick = ss[j][0]
						break
					}
				}
			}
			for t := range fa.Tracks {
				ea, eb := fa.Tracks[t].Events, fb.Tracks[t].Events
				if len(ea) != len(eb) {
					c.Violate("transpose", i, sig+":count", fmt.Sprintf("track %d of %d: --key %s gives %d events, --key %s gives %d", t, tracks, k1, len(ea), k2, len(eb)), det)
					return
				}
				for j := range ea {
					x, y := ea[j], eb[j]
					if x.Tick != y.Tick || x.Kind != y.Kind || x.MetaType != y.MetaType {
						c.Violate("transpose", i, sig+":structure", fmt.Sprintf("track %d of %d, event %d differs between --key %s and --key %s: %s vs %s", t, tracks, j, k1, k2, x, y), det)
						return
					}
					switch x.Kind {
					case smfdec.NoteOn, smfdec.NoteOff:
						want := shift
						if (x.Kind == smfdec.NoteOn && x.Tick >= changeTick) || (x.Kind == smfdec.NoteOff && x.Tick > changeTick) {
							want = 0
						}
						if x.Key()-y.Key() != want || (x.Kind == smfdec.NoteOn && x.Vel() != y.Vel()) {
							c.Violate("transpose", i, sig+":shift", fmt.Sprintf("track %d of %d at tick %d: key %d under --key %s vs %d under --key %s; expected a difference of %d", t, tracks, x.Tick, x.Key(), k1, y.Key(), k2, want), det)
							return
						}
					case smfdec.Meta:
						if x.MetaType == smfdec.MetaKSig && x.Tick == 0 && j < 8 {
							continue
						}
						if !bytes.Equal(x.Data, y.Data) {
							c.Violate("transpose", i, sig+":meta", fmt.Sprintf("meta event %02X at tick %d differs between the two keys", x.MetaType, x.Tick), det)
							return
						}
					default:
						if !bytes.Equal(x.Data, y.Data) {
							c.Violate("transpose", i, sig+":other", fmt.Sprintf("event %d differs: %s vs %s", j, x, y), det)
							return
						}
					}
				}
			}
			c.Seen("key_pairs", k1.String()+">"+k2.String())
			c.Seen("track_counts", fmt.Sprint(tracks))
			if nk > 0 && k1 != k2 {
				c.Nontrivial(fmt.Sprintf("t%d", i))
			}
			return
		}
		ea, eb := fa.Tracks[0].Events, fb.Tracks[0].Events
		if len(ea) != len(eb) {
			c.Violate("transpose", i, sig+":count", fmt.Sprintf("--key %s gives %d events, --key %s gives %d", k1, len(ea), k2, len(eb)), det)
			return
		}
		run := -1
		inRun := false
		for j := range ea {
			x, y := ea[j], eb[j]
			if x.Tick != y.Tick || x.Kind != y.Kind || x.MetaType != y.MetaType {
				c.Violate("transpose", i, sig+":structure", fmt.Sprintf("event %d differs between --key %s and --key %s: %s vs %s", j, k1, k2, x, y), det)
				return
			}
			switch x.Kind {
			case smfdec.NoteOn, smfdec.NoteOff:
				if x.Kind == smfdec.NoteOn {
					if !inRun {
						run++
						inRun = true
					}
				} else {
					inRun = false
				}
				want := shift
				if firstChange >= 0 && run >= firstChange {
					want = 0
				}
				if x.Key()-y.Key() != want || (x.Kind == smfdec.NoteOn && x.Vel() != y.Vel()) {
					c.Violate("transpose", i, sig+":shift", fmt.Sprintf("chord %d: key %d under --key %s vs %d under --key %s; expected a difference of %d (tonic distance while the initial key is in force, 0 after a key change)", run, x.Key(), k1, y.Key(), k2, want), det)
					return
				}
			case smfdec.Meta:
				if x.MetaType == smfdec.MetaKSig && x.Tick == 0 && j < 8 {
					continue
				}
				if !bytes.Equal(x.Data, y.Data) {
					c.Violate("transpose", i, sig+":meta", fmt.Sprintf("meta event %02X at tick %d differs between the two keys", x.MetaType, x.Tick), det)
					return
				}
			default:
				if !bytes.Equal(x.Data, y.Data) {
					c.Violate("transpose", i, sig+":other", fmt.Sprintf("event %d differs: %s vs %s", j, x, y), det)
					return
				}
			}
		}
		c.Seen("key_pairs", k1.String()+">"+k2.String())
		if nk > 0 && k1 != k2 {
			c.Nontrivial(fmt.Sprintf("t%d", i))
		}
	})
	// transposition out of the MIDI range: a performance in a key in which a tone would leave 0..127 cannot be
	// "every pitch shifted by the tonic distance" - it has to be refused, never written with other pitches
	c.Stream("range", c.N(300, 6000), func(i int, r *rand.Rand) {
		p := model.RandPiece(r, model.GenOpts{MinLen: 1, MaxLen: 5, RestProb: 0.2, SettingProb: 0.1, KeyChanges: false, BassProb: 0.3, MaxDeg: 9})
		hit := false
		for j := range p.Inst {
			if ch := p.Inst[j].Chord; ch != nil && (!hit || r.Intn(3) == 0) {
				n := 29 + r.Intn(12) // around the top of the range: in some keys inside, in others not
				q := theory.Major
				if k := (n - 1) % 7; k == 0 || k == 3 || k == 4 {
					q = theory.Perfect
				}
				ch.Deg = theory.Interval{N: n, Q: q}
				if r.Intn(3) == 0 {
					// a slash bass that lies above the chord tones (a compound interval): around the top of the range
					// it is the bass alone that leaves it
					bn := 12 + r.Intn(12)
					bq := theory.Major
					if k := (bn - 1) % 7; k == 0 || k == 3 || k == 4 {
						bq = theory.Perfect
					}
					ch.Bass = &theory.Interval{N: bn, Q: bq}
					ch.Deg.N = 26 + r.Intn(10)
					ch.Deg.Q = theory.Major
					if k := (ch.Deg.N - 1) % 7; k == 0 || k == 3 || k == 4 {
						ch.Deg.Q = theory.Perfect
					}
				}
				hit = true
			}
		}
		if !hit {
			return
		}
		k := keys[r.Intn(len(keys))]
		f := model.Flags{Key: k.String()}
		inRange := p.Effective(f).AllInRange()
		res, out := playPiece(c, p, f, writeOpts{})
		if infra(c, res) {
			return
		}
		det := withYAML(map[string]any{"key": k.String(), "all_tones_inside_0_127": inRange}, p)
		if a := abnormal(res); a != "" {
			c.Violate("range", i, "range:abnormal", "crd write "+a, det)
			return
		}
		if inRange {
			if !res.OK() {
				c.Violate("range", i, "range:refused", fmt.Sprintf("every tone of the piece is inside the MIDI range in %s, but crd write refuses it", k), mergeMaps(det, map[string]any{"run": obs(res)}))
				return
			}
			c.Count("range_inside", 1)
			return
		}
		if res.OK() {
			file, _ := decodeSMF(out)
			top := -1
			if file != nil {
				for _, e := range mergedEvents(file) {
					if e.Kind == smfdec.NoteOn && e.Key() > top {
						top = e.Key()
					}
				}
			}
			c.Violate("range", i, "range:accepted", fmt.Sprintf("in %s a tone of the piece lies above MIDI key 127, but crd write succeeds (highest key written: %d): the pitches cannot be the written ones", k, top), det)
			return
		}
		c.Count("range_refused", 1)
		c.Nontrivial(fmt.Sprintf("range%d", i))
	})
	_ = strings.Join
}
