package main

import (
	"fmt"
	"math/rand"
	"strings"

	"verif/core"
	"verif/model"
	"verif/runner"
	"verif/theory"
)

func init() { register("C01", checkC01) }

// judgePitches runs write on the piece (single track) and compares every chord's
// note-ons with the model. Returns false when the case could not be judged.
func judgePitches(c *core.Ctx, stream string, idx int, p model.Piece, f model.Flags, o writeOpts) bool {
	eff := p.Effective(f)
	if !eff.AllInRange() {
		c.Count("skipped_out_of_range", 1)
		return false
	}
	r, out := playPiece(c, p, f, o)
	if infra(c, r) {
		return false
	}
	sigBase := fmt.Sprintf("%s#%d", stream, idx)
	if a := abnormal(r); a != "" {
		c.Violate(stream, idx, sigBase+":abnormal", "crd write "+a, withYAML(obs(r), p))
		return false
	}
	if !r.OK() {
		c.Violate(stream, idx, sigBase+":refused", "crd write refuses a valid instances document whose chords stay inside the MIDI range", withYAML(obs(r), p))
		return false
	}
	file, derr := decodeSMF(out)
	if file == nil {
		c.Violate(stream, idx, sigBase+":decode", "crd write output cannot be decoded: "+derr, withYAML(obs(r), p))
		return false
	}
	runs := chordRuns(file)
	keys := eff.KeysInForce()
	k := 0
	for i, in := range eff.Inst {
		if in.Chord == nil {
			continue
		}
		want, _ := model.ExpectedNotes(*in.Chord, keys[i])
		if k >= len(runs) {
			c.Violate(stream, idx, sigBase+":missing", fmt.Sprintf("chord %d (instance %d) sounds nothing: only %d groups of note-ons in the file", k, i, len(runs)), withYAML(pieceDesc(p, f), p))
			return true
		}
		got := runs[k]
		k++
		if !eqInts(sortedInts(got), sortedInts(want)) {
			ch := in.Chord
			bass := "-"
			if ch.Bass != nil {
				bass = ch.Bass.Notation()
			}
			c.Violate(stream, idx,
				fmt.Sprintf("pitch:key=%s:deg=%s:sym=%s:bass=%s", keys[i], ch.Deg.Notation(), ch.Symbol, bass),
				fmt.Sprintf("instance %d: degree %s symbol %q bass %s in key %s sounds keys %v, expected %v", i, ch.Deg.Notation(), ch.Symbol, bass, keys[i], sortedInts(got), sortedInts(want)),
				withYAML(pieceDesc(p, f), p))
			return true
		}
		c.Seen("keys_in_force", keys[i])
		c.Seen("symbols", ch0(in.Chord.Symbol))
		c.Seen("degrees", in.Chord.Deg.Notation())
		if len(want) >= 4 && (keys[i] != "C" || in.Chord.Deg.Notation() != "1") {
			b := "-"
			if in.Chord.Bass != nil {
				b = in.Chord.Bass.Notation()
			}
			c.Nontrivial(keys[i] + "|" + in.Chord.Deg.Notation() + "|" + in.Chord.Symbol + "|" + b)
		}
	}
	c.Eval(k) // every chord compared is a case of its own (the run itself was counted by playPiece)
	if k != len(runs) {
		c.Violate(stream, idx, sigBase+":extra", fmt.Sprintf("%d groups of note-ons in the file but only %d chords written", len(runs), k), withYAML(pieceDesc(p, f), p))
	}
	return true
}

func ch0(s string) string {
	if s == "" {
		return "(empty)"
	}
	return s
}

func one() []model.Frac { return []model.Frac{{Num: 1, Den: 1}} }

func checkC01(c *core.Ctx) {
	c.Rule("random instance documents (1..12 instances quick, 1..40 thorough; degrees 1..15 in every quality and both spellings of diminished, all 46 dictionary keys, random basses, key changes anywhere, with/without --key, stdin/FILE, stdout/-o, three YAML syntaxes) plus the product sweep key x degree x symbol (sampled in quick, complete in thorough), key x degree x bass, every placement of key changes in short pieces, and user dictionaries (--chord/--attr inheritance forests split over files in any order, symbols taken over from built-ins, used by name and display next to built-ins); numbers of the documents sometimes written with leading zeros; " +
		"each chord's group of note-ons (single track) must equal, as a multiset, 60 + tonic + interval sizes computed by the independent calculator; non-trivial = chord with >= 4 notes not being I in C; distinct by (key in force, degree, symbol, bass)")
	c.Assume("theory.Size, theory.ChordTable (conventional chord meanings), theory.Key.TonicOffset", "smfdec", "generated documents keep every pitch inside 0..127")

	// random pieces
	c.Stream("random", c.N(4000, 60000), func(i int, r *rand.Rand) {
		p := model.RandPiece(r, model.GenOpts{MinLen: 1, MaxLen: c.N(12, 40), RestProb: 0.2, SettingProb: 0.15, TextProb: 0.05, KeyChanges: true, BassProb: 0.5, Tiny: true})
		var f model.Flags
		if r.Intn(3) == 0 {
			f.Key = model.RandKey(r)
		}
		o := randWriteOpts(r)
		if f.Key == "" && r.Intn(6) == 0 {
			// a key flag set to its empty default means "no override"
			o.extra = append(o.extra, [][]string{{"--key", ""}, {"-k", ""}, {"--key="}}[r.Intn(3)]...)
		}
		if judgePitches(c, "random", i, p, f, o) && c.WantSample() {
			c.Sample(pieceDesc(p, f))
		}
	})

	// product sweep: key x degree x symbol, 60 chords per document, key set on every chord
	keys := theory.Supported()
	degs := theory.AllIntervals(15)
	syms := theory.SymbolKeys()
	total := len(keys) * len(degs) * len(syms)
	per := 60
	docs := (total + per - 1) / per
	c.Extra("product_key_degree_symbol", total)
	nDocs := docs
	if c.Quick() {
		nDocs = 300
	} else {
		c.Exhaustive(true)
	}
	c.Stream("sweep", nDocs, func(d int, r *rand.Rand) {
		doc := d
		if c.Quick() {
			doc = r.Intn(docs)
		}
		var p model.Piece
		for j := doc * per; j < (doc+1)*per && j < total; j++ {
			// interleave so that consecutive chords differ in key
			k := keys[j%len(keys)]
			dg := degs[(j/len(keys))%len(degs)]
			sy := syms[j/(len(keys)*len(degs))]
			b := model.RandInterval(r, 9)
			ch := &model.ChordSpec{Deg: dg, Symbol: sy, AltDeg: r.Intn(2) == 0, AltBass: r.Intn(2) == 0}
			if r.Intn(3) != 0 {
				ch.Bass = &b
			}
			p.Inst = append(p.Inst, model.Instance{Chord: ch, Values: one(), Key: k.String()})
		}
		judgePitches(c, "sweep", d, p, model.Flags{}, writeOpts{})
	})

	// key x degree x bass for one symbol
	totalB := len(keys) * len(degs) * len(degs)
	docsB := (totalB + per - 1) / per
	c.Extra("product_key_degree_bass", totalB)
	nB := docsB
	if c.Quick() {
		nB = 200
	}
	c.Stream("bass", nB, func(d int, r *rand.Rand) {
		doc := d
		if c.Quick() {
			doc = r.Intn(docsB)
		}
		sy := syms[r.Intn(len(syms))]
		var p model.Piece
		for j := doc * per; j < (doc+1)*per && j < totalB; j++ {
			k := keys[j%len(keys)]
			dg := degs[(j/len(keys))%len(degs)]
			bs := degs[j/(len(keys)*len(degs))]
			p.Inst = append(p.Inst, model.Instance{Chord: &model.ChordSpec{Deg: dg, Symbol: sy, Bass: &bs, AltBass: r.Intn(2) == 0}, Values: one(), Key: k.String()})
		}
		judgePitches(c, "bass", d, p, model.Flags{}, writeOpts{})
	})

	// key-change placements in short pieces: every subset of positions (length <= 5), with/without --key, rests included
	type place struct{ n, mask int }
	var places []place
	for n := 1; n <= 5; n++ {
		for m := 0; m < 1<<n; m++ {
			places = append(places, place{n, m})
		}
	}
	reps := c.N(4, 20)
	c.Stream("keyplace", len(places)*2*reps, func(i int, r *rand.Rand) {
		pl := places[i%len(places)]
		withFlag := (i/len(places))%2 == 1
		var p model.Piece
		for j := 0; j < pl.n; j++ {
			in := model.Instance{Values: one()}
			if r.Intn(4) != 0 {
				b := model.RandInterval(r, 8)
				in.Chord = &model.ChordSpec{Deg: model.RandInterval(r, 9), Symbol: model.RandSymbol(r), Bass: &b}
			}
			if pl.mask&(1<<j) != 0 {
				in.Key = model.RandKey(r)
			}
			p.Inst = append(p.Inst, in)
		}
		var f model.Flags
		if withFlag {
			f.Key = model.RandKey(r)
		}
		judgePitches(c, "keyplace", i, p, f, writeOpts{})
	})

	c.Stream("collide", c.N(150, 3000), func(i int, r *rand.Rand) {
		judgePitches(c, "collide", i, collisionPiece(r), model.Flags{}, randWriteOpts(r))
	})

	// user dictionaries: "every chord symbol of the dictionary", "inherited ones included" holds for the
	// dictionary in force, i.e. with --chord/--attr files loaded: inheritance forests split over several
	// files in any order, symbols taken over from built-ins, used by name and by display
	// where the bytes go is none of the music's business: a piece that plays into a pipe plays into /dev/null (the
	// validity check of a script), into a character device named by -o and into a terminal just the same
	c.Stream("sinks", c.N(24, 240), func(i int, r *rand.Rand) {
		p := model.RandPiece(r, model.GenOpts{MinLen: 1, MaxLen: 6, RestProb: 0.2, KeyChanges: true, BassProb: 0.3, MaxDeg: 7})
		if !p.Effective(model.Flags{}).AllInRange() {
			return
		}
		doc := p.YAML(model.YAMLStyle{})
		ref := run(c, doc, "write")
		c.Eval(1)
		if infra(c, ref) || !ref.OK() {
			return
		}
		var res *runner.Result
		sink := []string{"> /dev/null", "-o /dev/null", "-o /dev/tty-like (pseudo terminal as stdout is not available: -o /dev/zero)", "> /dev/zero"}[i%4]
		switch i % 4 {
		case 0:
			res = c.Crd.Run(runner.Opt{Stdin: doc, Redirect: ">/dev/null"}, "write")
		case 1:
			res = c.Crd.Run(runner.Opt{Stdin: doc}, "write", "-o", "/dev/null")
		case 2:
			res = c.Crd.Run(runner.Opt{Stdin: doc}, "write", "--output=/dev/zero")
		default:
			res = c.Crd.Run(runner.Opt{Stdin: doc, Redirect: ">/dev/zero"}, "write", "--track", "2")
		}
		c.Eval(1)
		if infra(c, res) {
			return
		}
		if a := abnormal(res); a != "" || !res.OK() {
			c.Violate("sinks", i, "sinks:"+sink[:2], fmt.Sprintf("crd write %s refuses (or fails on) a piece it plays into a pipe %s", sink, a), withYAML(obs(res), p))
			return
		}
		c.Nontrivial(fmt.Sprintf("sinks%d", i))
	})

	c.Stream("userdict", c.N(400, 8000), func(i int, r *rand.Rand) {
		f := genForest(r, fmt.Sprint(i%10))
		args := writeDictFiles(c, r, f)
		var p model.Piece
		n := 2 + r.Intn(7)
		for j := 0; j < n; j++ {
			in := model.Instance{Values: one()}
			if r.Intn(3) == 0 {
				in.Key = model.RandKey(r)
			}
			ch := &model.ChordSpec{Deg: model.RandInterval(r, 5)}
			if r.Intn(3) == 0 {
				b := model.RandInterval(r, 8)
				ch.Bass = &b
			}
			switch uc := f.chords[r.Intn(len(f.chords))]; r.Intn(5) {
			case 0:
				// a built-in next to the user's chords (not one whose symbol or name the forest redefines)
				for {
					ch.Symbol = model.RandSymbol(r)
					if f.redefSixth && (ch.Symbol == "6" || ch.Symbol == "m6" || ch.Symbol == "Sixth") {
						continue
					}
					if ch.Symbol != "add9" && ch.Symbol != "AddedNinth" && (f.takenOver == "" || ch.Symbol != theory.ChordNames[f.takenOver]) {
						break
					}
				}
			case 1, 2:
				ch.Symbol, ch.Semis = uc.Name, f.semis[uc.Name]
			default:
				ch.Symbol, ch.Semis = uc.Display, f.semis[uc.Name]
				if uc.Name == f.nameAlias {
					// this display symbol is spelled like the name of a built-in: the name wins
					ch.Semis = nil
				}
			}
			in.Chord = ch
			p.Inst = append(p.Inst, in)
		}
		o := randWriteOpts(r)
		o.extra = append(o.extra, args...)
		if judgePitches(c, "userdict", i, p, model.Flags{}, o) && c.WantSample() {
			c.Sample(mergeMaps(pieceDesc(p, model.Flags{}), map[string]any{"chord_yaml": short(string(chordsYAML(f.chords)), 1200), "args": strings.Join(args, " ")}))
		}
	})
}
