package main

import (
	"bytes"
	"fmt"
	"math/rand"
	"sort"
	"strings"
	"unicode/utf16"

	"verif/core"
	"verif/model"
	"verif/runner"
	"verif/smfdec"
	"verif/theory"
)

// writeOpts selects the I/O path of a `crd write` run.
type writeOpts struct {
	viaFile bool // input as FILE argument instead of stdin
	outFile bool // output with -o instead of stdout
	extra   []string
	style   model.YAMLStyle
	env     []string // extra environment of the child (e.g. GOMAXPROCS=3)
	// how the document reaches standard input (runner.Opt.StdinKind / StdinPieces) and how it is encoded
	stdinKind string
	pieces    int
	encoding  string // "", "utf8bom", "utf16le", "utf16be" (the latter two with byte order mark)
	outDev    string // -o names the process's own standard output (/dev/stdout, /dev/fd/1, /proc/self/fd/1)
	devStdin  bool   // the document is a FILE argument that is a pipe: /dev/stdin
	viaText   bool   // the document is what `crd text conv degree` prints for the piece written as chord text (if it can be)
}

// encodeDoc re-encodes a UTF-8 YAML document.
func encodeDoc(doc []byte, enc string) []byte {
	switch enc {
	case "crlf":
		// the line ends of another platform (texts with line breaks are written with escapes by the model)
		return bytes.ReplaceAll(doc, []byte("\n"), []byte("\r\n"))
	case "multidoc":
		// a stream of several documents: the first one is the piece
		return append(append([]byte{}, doc...), []byte("---\n- values: [\"3\"]\n  meta: {txt: \"second document\"}\n---\n- values: [\"2\"]\n")...)
	case "utf8bom":
		return append([]byte("\xef\xbb\xbf"), doc...)
	case "utf16le", "utf16be":
		u := utf16.Encode([]rune("\ufeff" + string(doc)))
		out := make([]byte, 0, 2*len(u))
		for _, x := range u {
			if enc == "utf16le" {
				out = append(out, byte(x), byte(x>>8))
			} else {
				out = append(out, byte(x>>8), byte(x))
			}
		}
		return out
	}
	return doc
}

// playPiece runs `crd write` on the piece and returns the raw result and bytes.
func playPiece(c *core.Ctx, p model.Piece, f model.Flags, o writeOpts) (*runner.Result, []byte) {
	doc := encodeDoc(p.YAML(o.style), o.encoding)
	if o.viaText {
		if text, ok := p.DegreeTextPiece(model.TextOpts{}); ok {
			r := c.Crd.Run(runner.Opt{Stdin: []byte(text)}, "text", "conv", "degree")
			c.Eval(1)
			if !r.OK() {
				return r, nil
			}
			doc = r.Stdout
		}
	}
	args := append([]string{"write"}, f.Args()...)
	args = append(args, o.extra...)
	var outPath string
	if o.outDev != "" {
		o.outFile = false
		args = append(args, "-o", o.outDev)
	}
	if o.outFile {
		outPath = c.Scratch.Path("out.mid")
		args = append(args, "-o", outPath)
	}
	var stdin []byte
	if o.devStdin {
		o.viaFile = false
		args = append(args, "/dev/stdin")
		stdin = doc
	} else if o.viaFile {
		args = append(args, c.Scratch.File("in.yml", doc))
	} else {
		stdin = doc
	}
	if stdin == nil {
		stdin = []byte{}
	}
	ro := runner.Opt{Stdin: stdin, Env: o.env}
	if !o.viaFile {
		ro.StdinKind, ro.StdinPieces = o.stdinKind, o.pieces
	}
	r := c.Crd.Run(ro, args...)
	c.Eval(1)
	out := r.Stdout
	if o.outFile {
		out = readFileOrNil(outPath)
	}
	return r, out
}

// randWriteOpts varies the I/O path and YAML syntax.
func randWriteOpts(r *rand.Rand) writeOpts {
	o := writeOpts{
		viaFile: r.Intn(4) == 0,
		outFile: r.Intn(4) == 0,
		style:   model.YAMLStyle{PlainNumbers: r.Intn(2) == 0, FlowValues: r.Intn(3) == 0, JSON: r.Intn(8) == 0, ZeroPad: r.Intn(5) == 0, Anchors: r.Intn(6) == 0, RawTabs: r.Intn(3) == 0},
	}
	switch r.Intn(12) {
	case 0:
		o.stdinKind = "file"
	case 1:
		o.stdinKind = "fileoffset"
	case 2:
		o.stdinKind = "socket"
	case 3:
		o.pieces = 2 + r.Intn(4)
	}
	if r.Intn(10) == 0 {
		// --debug only adds log lines on stderr
		o.extra = append(o.extra, "--debug")
	}
	if r.Intn(14) == 0 {
		o.devStdin = true
		o.stdinKind, o.pieces = "", 0
	}
	if r.Intn(12) == 0 {
		o.outDev = []string{"/dev/stdout", "/dev/fd/1", "/proc/self/fd/1"}[r.Intn(3)]
	}
	switch r.Intn(16) {
	case 3, 4:
		if !o.style.RawTabs {
			o.encoding = "crlf"
		}
	case 5:
		if !o.style.JSON {
			o.encoding = "multidoc"
		}
	case 0:
		o.encoding = "utf8bom"
	case 1:
		o.encoding = "utf16le"
	case 2:
		o.encoding = "utf16be"
	}
	return o
}

// chordRuns groups the note-ons of a single-track file into runs of consecutive
// note-ons (a run ends at the first note-off).
func chordRuns(f *smfdec.File) [][]int {
	var runs [][]int
	var cur []int
	for _, tr := range f.Tracks {
		for _, e := range tr.Events {
			switch e.Kind {
			case smfdec.NoteOn:
				cur = append(cur, e.Key())
			case smfdec.NoteOff:
				if cur != nil {
					runs = append(runs, cur)
					cur = nil
				}
			}
		}
		if cur != nil {
			runs = append(runs, cur)
			cur = nil
		}
	}
	return runs
}

// pieceDesc is a compact literal description for samples and violation details.
func pieceDesc(p model.Piece, f model.Flags) map[string]any {
	var parts []string
	for _, in := range p.Inst {
		var s string
		if in.Chord != nil {
			s = model.YAMLNotation(in.Chord.Deg, in.Chord.AltDeg) + "|" + in.Chord.Symbol
			if in.Chord.Bass != nil {
				s += "/" + model.YAMLNotation(*in.Chord.Bass, in.Chord.AltBass)
			}
		} else {
			s = "R"
		}
		s += model.ValuesText(in.Values)
		s += model.MetaText(in.MetaPairs())
		parts = append(parts, s)
	}
	d := map[string]any{"instances": short(strings.Join(parts, " "), 1200)}
	if a := f.Args(); len(a) > 0 {
		d["flags"] = strings.Join(a, " ")
	}
	return d
}

func withYAML(d map[string]any, p model.Piece) map[string]any {
	d["yaml"] = short(string(p.YAML(model.YAMLStyle{})), 3000)
	return d
}

// timingProblems checks the C02 clauses on a decoded file (any track count):
// onsets at instance starts, releases at instance ends, nothing inside rests,
// release before strike of the same pitch on one track.
func timingProblems(f *smfdec.File, p model.Piece) []string {
	var probs []string
	T := f.Division
	ev := mergedEvents(f)
	groups := onsetGroups(f)
	_ = ev
	// release ticks: pair each note-on with the next note-off of the same key on the same track
	offTick := map[[3]int]uint64{} // (track, index) of the on -> tick of its off
	for ti, tr := range f.Tracks {
		open := map[int][]int{} // key -> indices of open ons
		onTick := map[int]uint64{}
		for _, e := range tr.Events {
			switch e.Kind {
			case smfdec.NoteOn:
				// the same key twice inside one chord (same tick) is legal; striking a key
				// that an earlier chord still holds is the release-before-strike clause
				if len(open[e.Key()]) > 0 && onTick[e.Key()] != e.Tick {
					probs = append(probs, fmt.Sprintf("track %d tick %d: key %d struck again before the previous chord released it", ti, e.Tick, e.Key()))
				}
				onTick[e.Key()] = e.Tick
				open[e.Key()] = append(open[e.Key()], e.Index)
			case smfdec.NoteOff:
				if l := open[e.Key()]; len(l) > 0 {
					offTick[[3]int{ti, l[0], 0}] = e.Tick
					open[e.Key()] = l[1:]
				} else {
					probs = append(probs, fmt.Sprintf("track %d tick %d: release of key %d that is not sounding", ti, e.Tick, e.Key()))
				}
			}
		}
		for k, l := range open {
			if len(l) > 0 {
				probs = append(probs, fmt.Sprintf("track %d: key %d never released", ti, k))
			}
		}
	}
	if len(probs) > 0 {
		sort.Strings(probs)
		return probs
	}
	cur := []uint64{0}
	gi := 0
	for i, in := range p.Inst {
		lens := model.Lengths(T, in.Values)
		if in.Chord == nil {
			next := map[uint64]bool{}
			for _, s := range cur {
				for _, l := range lens {
					next[s+l] = true
				}
			}
			cur = cur[:0]
			for k := range next {
				cur = append(cur, k)
			}
			sort.Slice(cur, func(a, b int) bool { return cur[a] < cur[b] })
			continue
		}
		if gi >= len(groups) {
			probs = append(probs, fmt.Sprintf("instance %d (chord) has no note-ons: only %d onset groups in the file", i, len(groups)))
			return probs
		}
		g := groups[gi]
		gi++
		for _, on := range g.ons {
			if on.Tick != g.tick {
				probs = append(probs, fmt.Sprintf("instance %d: note-ons of one chord at ticks %d and %d", i, g.tick, on.Tick))
				return probs
			}
		}
		if !model.InSet(cur, g.tick) {
			probs = append(probs, fmt.Sprintf("instance %d: note-ons at tick %d, the instance starts at %v (T=%d)", i, g.tick, cur, T))
			return probs
		}
		var end uint64
		for j, on := range g.ons {
			ot, ok := offTick[[3]int{on.Track, on.Index, 0}]
			if !ok {
				probs = append(probs, fmt.Sprintf("instance %d: key %d has no release", i, on.Key()))
				return probs
			}
			if j == 0 {
				end = ot
			} else if ot != end {
				probs = append(probs, fmt.Sprintf("instance %d: releases at different ticks %d and %d", i, end, ot))
				return probs
			}
		}
		l := end - g.tick
		if !model.InSet(lens, l) {
			probs = append(probs, fmt.Sprintf("instance %d: sounds %d ticks (on %d, off %d), written duration gives %v (T=%d, values %s)", i, l, g.tick, end, lens, T, model.ValuesText(in.Values)))
			return probs
		}
		cur = []uint64{end}
	}
	if gi != len(groups) {
		probs = append(probs, fmt.Sprintf("%d onset groups in the file but only %d chords written (first extra at tick %d)", len(groups), gi, groups[gi].tick))
	}
	return probs
}

// onsetGroup is the set of note-ons of one chord.
type onsetGroup struct {
	tick uint64
	ons  []smfdec.Event
}

// onsetGroups attributes note-ons to chords. In a single-track file a chord is a run of consecutive
// note-ons ended by the first note-off (this also separates chords of zero ticks that share a tick
// with their neighbours); with several tracks the notes of one chord are spread over the tracks and
// are grouped by tick (the generators then avoid instances shorter than 2 ticks).
func onsetGroups(f *smfdec.File) []onsetGroup {
	var groups []onsetGroup
	if len(f.Tracks) == 1 {
		open := false
		for _, e := range f.Tracks[0].Events {
			switch e.Kind {
			case smfdec.NoteOn:
				if !open {
					groups = append(groups, onsetGroup{tick: e.Tick})
					open = true
				}
				g := &groups[len(groups)-1]
				g.ons = append(g.ons, e)
			case smfdec.NoteOff:
				open = false
			}
		}
		return groups
	}
	for _, e := range mergedEvents(f) {
		if e.Kind != smfdec.NoteOn {
			continue
		}
		if len(groups) == 0 || groups[len(groups)-1].tick != e.Tick {
			groups = append(groups, onsetGroup{tick: e.Tick})
		}
		g := &groups[len(groups)-1]
		g.ons = append(g.ons, e)
	}
	return groups
}

// ctlEvent is an expected control event.
type ctlEvent struct {
	inst    int
	kind    byte
	payload [][]byte // admissible payloads (first two bytes compared for time signature)
	desc    string
}

// expectedControls lists the control events of the effective piece.
func expectedControls(p model.Piece) []ctlEvent {
	var out []ctlEvent
	for i, in := range p.Inst {
		bpm, meter, key := in.BPM, in.Meter, in.Key
		if i == 0 {
			d := model.DefaultSettings()
			if bpm == 0 {
				bpm = d.BPM
			}
			if meter == nil {
				m := d.Meter
				meter = &m
			}
			if key == "" {
				key = d.Key
			}
		}
		if bpm != 0 {
			out = append(out, ctlEvent{inst: i, kind: smfdec.MetaTemp, payload: tempoPayloads(bpm), desc: fmt.Sprintf("tempo %d bpm", bpm)})
		}
		if meter != nil {
			out = append(out, ctlEvent{inst: i, kind: smfdec.MetaTSig, payload: [][]byte{{byte(meter.Num), log2(meter.Den)}}, desc: fmt.Sprintf("meter %d/%d", meter.Num, meter.Den)})
		}
		if key != "" {
			out = append(out, ctlEvent{inst: i, kind: smfdec.MetaKSig, payload: [][]byte{keySigPayload(key)}, desc: "key " + key})
		}
		for _, kv := range [][2]string{{"txt", string(rune(smfdec.MetaText))}, {"lic", string(rune(smfdec.MetaLyr))}, {"mrk", string(rune(smfdec.MetaMark))}} {
			if t, ok := in.Meta[kv[0]]; ok && t != "" {
				out = append(out, ctlEvent{inst: i, kind: kv[1][0], payload: [][]byte{[]byte(t)}, desc: kv[0] + " " + fmt.Sprintf("%q", short(t, 40))})
			}
		}
	}
	return out
}

func log2(d uint64) byte {
	var k byte
	for d > 1 {
		d >>= 1
		k++
	}
	return k
}

// tempoPayloads returns the admissible payloads of the tempo event: 60,000,000/bpm microseconds per quarter
// note as the nearest whole number (either neighbour when exactly halfway).
func tempoPayloads(bpm uint64) [][]byte {
	q, rem := 60000000/bpm, 60000000%bpm
	var vals []uint64
	switch {
	case 2*rem < bpm:
		vals = []uint64{q}
	case 2*rem > bpm:
		vals = []uint64{q + 1}
	default:
		vals = []uint64{q, q + 1}
	}
	var out [][]byte
	for _, v := range vals {
		out = append(out, []byte{byte(v >> 16), byte(v >> 8), byte(v)})
	}
	return out
}

func keySigPayload(key string) []byte {
	k, _ := theoryKey(key)
	mi := byte(0)
	if k.Minor {
		mi = 1
	}
	return []byte{byte(int8(k.Signature())), mi}
}

func isControl(e smfdec.Event) bool {
	if e.Kind != smfdec.Meta {
		return false
	}
	switch e.MetaType {
	case smfdec.MetaTemp, smfdec.MetaTSig, smfdec.MetaKSig, smfdec.MetaText, smfdec.MetaLyr, smfdec.MetaMark:
		return true
	}
	return false
}

// controlProblems compares the control events of the file with the expected ones.
func controlProblems(f *smfdec.File, p model.Piece) []string {
	var probs []string
	starts := model.StartSets(f.Division, p)
	exp := expectedControls(p)
	used := make([]bool, len(exp))
	for _, e := range mergedEvents(f) {
		if !isControl(e) {
			continue
		}
		found := false
		for j, x := range exp {
			if used[j] || x.kind != e.MetaType || !model.InSet(starts[x.inst], e.Tick) {
				continue
			}
			ok := false
			for _, pl := range x.payload {
				got := e.Data
				if x.kind == smfdec.MetaTSig && len(got) >= 2 {
					got = got[:2]
				}
				if string(pl) == string(got) {
					ok = true
				}
			}
			if ok {
				used[j] = true
				found = true
				break
			}
		}
		if !found {
			probs = append(probs, fmt.Sprintf("unexpected event at tick %d: meta %02X payload % X (%q) — nothing written calls for it there", e.Tick, e.MetaType, e.Data, short(string(e.Data), 40)))
		}
	}
	for j, x := range exp {
		if !used[j] {
			probs = append(probs, fmt.Sprintf("missing event: %s at the start of instance %d (tick %v)", x.desc, x.inst, starts[x.inst]))
		}
	}
	return probs
}

func readFileOrNil(p string) []byte {
	b, err := osReadFile(p)
	if err != nil {
		return nil
	}
	return b
}

// collisionPiece builds a document in which different chords spell the same digits when their degree, symbol
// and bass are run together: degree 17 with the plain triad and degree 1 with "7", 16 / 1+"6", 19 / 1+"9",
// 27 / 2+"7", "1"+"7"+bass 5 against "17" with bass 5, ... in both orders, interleaved with other chords.
func collisionPiece(r *rand.Rand) model.Piece {
	P := func(n int) theory.Interval {
		q := theory.Major
		if k := (n - 1) % 7; k == 0 || k == 3 || k == 4 {
			q = theory.Perfect
		}
		return theory.Interval{N: n, Q: q}
	}
	type pr struct {
		a, b model.ChordSpec
	}
	five := P(5)
	pairs := []pr{
		{model.ChordSpec{Deg: P(17), Symbol: ""}, model.ChordSpec{Deg: P(1), Symbol: "7"}},
		{model.ChordSpec{Deg: P(16), Symbol: ""}, model.ChordSpec{Deg: P(1), Symbol: "6"}},
		{model.ChordSpec{Deg: P(19), Symbol: ""}, model.ChordSpec{Deg: P(1), Symbol: "9"}},
		{model.ChordSpec{Deg: P(27), Symbol: ""}, model.ChordSpec{Deg: P(2), Symbol: "7"}},
		{model.ChordSpec{Deg: P(26), Symbol: ""}, model.ChordSpec{Deg: P(2), Symbol: "6"}},
		{model.ChordSpec{Deg: P(17), Symbol: "", Bass: &five}, model.ChordSpec{Deg: P(1), Symbol: "7", Bass: &five}},
		{model.ChordSpec{Deg: P(17), Symbol: "sus4"}, model.ChordSpec{Deg: P(1), Symbol: "7sus4"}},
		{model.ChordSpec{Deg: P(1), Symbol: "m7"}, model.ChordSpec{Deg: P(1), Symbol: "MinorSeventh"}}, // one chord, two spellings
		{model.ChordSpec{Deg: P(1), Symbol: "m"}, model.ChordSpec{Deg: P(1), Symbol: "m7"}},
	}
	var p model.Piece
	for k := 1 + r.Intn(3); k > 0; k-- {
		x := pairs[r.Intn(len(pairs))]
		a, b := x.a, x.b
		if r.Intn(2) == 0 {
			a, b = b, a
		}
		p.Inst = append(p.Inst, model.Instance{Chord: &a, Values: one()})
		if r.Intn(2) == 0 {
			p.Inst = append(p.Inst, model.Instance{Chord: &model.ChordSpec{Deg: P(1 + r.Intn(7)), Symbol: "m7"}, Values: one()})
		}
		p.Inst = append(p.Inst, model.Instance{Chord: &b, Values: one()})
		if r.Intn(3) == 0 {
			a2 := a
			p.Inst = append(p.Inst, model.Instance{Chord: &a2, Values: one()})
		}
	}
	return p
}
