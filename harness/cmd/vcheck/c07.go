package main

import (
	"fmt"
	"math/rand"
	"strings"
	"sync"

	"verif/core"
	"verif/model"
	"verif/smfdec"
	"verif/theory"
)

func init() { register("C07", checkC07) }

// learnVelocities probes the six dynamics and checks that they are strictly increasing.
func learnVelocities(c *core.Ctx, stream string) map[string]int {
	vel := map[string]int{}
	for i, d := range model.Dynamics {
		p := model.Piece{Inst: []model.Instance{{Chord: &model.ChordSpec{Deg: theory.Interval{N: 1, Q: theory.Perfect}, Symbol: "m7"}, Values: one(), Velocity: d}}}
		r, out := playPiece(c, p, model.Flags{}, writeOpts{})
		if infra(c, r) {
			return nil
		}
		if a := abnormal(r); a != "" || !r.OK() {
			c.Violate(stream, i, "velocity-probe:"+d+":failed", "crd write fails on a one-chord document with velocity "+d+" "+a, withYAML(obs(r), p))
			return nil
		}
		f, derr := decodeSMF(out)
		if f == nil {
			c.Violate(stream, i, "velocity-probe:"+d+":decode", derr, nil)
			return nil
		}
		v := -1
		for _, e := range mergedEvents(f) {
			if e.Kind == smfdec.NoteOn {
				if v >= 0 && e.Vel() != v {
					c.Violate(stream, i, "velocity-probe:"+d+":mixed", fmt.Sprintf("velocity %s: notes of one chord carry velocities %d and %d", d, v, e.Vel()), nil)
					return nil
				}
				v = e.Vel()
			}
		}
		if v < 1 {
			c.Violate(stream, i, "velocity-probe:"+d+":none", "velocity "+d+": no audible note-on", nil)
			return nil
		}
		vel[d] = v
	}
	// the dynamic in force before any is set: the statement does not name it, so it is learned; it only
	// has to be one of the six
	{
		p := model.Piece{Inst: []model.Instance{{Chord: &model.ChordSpec{Deg: theory.Interval{N: 1, Q: theory.Perfect}, Symbol: "m7"}, Values: one()}}}
		r, out := playPiece(c, p, model.Flags{}, writeOpts{})
		f, _ := decodeSMF(out)
		if infra(c, r) || f == nil {
			if f == nil && !r.WallKill {
				c.Violate(stream, 6, "velocity-probe:default:failed", "crd write fails on a one-chord document without a dynamic", withYAML(obs(r), p))
			}
			return nil
		}
		def := ""
		for _, e := range mergedEvents(f) {
			if e.Kind == smfdec.NoteOn {
				for d, v := range vel {
					if v == e.Vel() {
						def = d
					}
				}
				if def == "" {
					c.Violate(stream, 6, "velocity-probe:default:unknown", fmt.Sprintf("without any dynamic, notes are struck with velocity %d, which is none of the six dynamics %v", e.Vel(), vel), nil)
					return nil
				}
				break
			}
		}
		vel["(default)"] = vel[def]
	}
	for i := 1; i < len(model.Dynamics); i++ {
		a, b := model.Dynamics[i-1], model.Dynamics[i]
		if vel[a] >= vel[b] {
			c.Violate(stream, i, "velocity-order:"+a+"-"+b, fmt.Sprintf("dynamic %s (velocity %d) is not quieter than %s (velocity %d)", a, vel[a], b, vel[b]), nil)
			return nil
		}
	}
	return vel
}

// velocityProblems checks that every chord's note-ons carry the dynamic in force.
func velocityProblems(f *smfdec.File, p model.Piece, vel map[string]int) []string {
	cur := "(default)"
	var groups [][]smfdec.Event
	for _, g := range onsetGroups(f) {
		groups = append(groups, g.ons)
	}
	gi := 0
	for i, in := range p.Inst {
		if in.Velocity != "" {
			cur = in.Velocity
		}
		if in.Chord == nil {
			continue
		}
		if gi >= len(groups) {
			return []string{fmt.Sprintf("instance %d: no note-ons", i)}
		}
		for _, e := range groups[gi] {
			if e.Vel() != vel[cur] {
				return []string{fmt.Sprintf("instance %d: key %d struck with velocity %d, the dynamic in force is %s (velocity %d)", i, e.Key(), e.Vel(), cur, vel[cur])}
			}
		}
		gi++
	}
	return nil
}

func judgeControls(c *core.Ctx, stream string, idx int, p model.Piece, f model.Flags, o writeOpts, vel map[string]int, sigPrefix string) bool {
	eff := p.Effective(f)
	r, out := playPiece(c, p, f, o)
	if infra(c, r) {
		return false
	}
	sig := fmt.Sprintf("%s#%d", stream, idx)
	if sigPrefix != "" {
		sig = sigPrefix
	}
	if a := abnormal(r); a != "" {
		c.Violate(stream, idx, sig+":abnormal", "crd write "+a, withYAML(obs(r), p))
		return false
	}
	if !r.OK() {
		c.Violate(stream, idx, sig+":refused", "crd write refuses a valid instances document", withYAML(obs(r), p))
		return false
	}
	file, derr := decodeSMF(out)
	if file == nil {
		c.Violate(stream, idx, sig+":decode", "crd write output cannot be decoded: "+derr, withYAML(obs(r), p))
		return false
	}
	if probs := controlProblems(file, eff); len(probs) > 0 {
		c.Violate(stream, idx, sig+":control", strings.Join(probs[:min(len(probs), 3)], "; "), withYAML(pieceDesc(p, f), p))
		return true
	}
	if vel != nil {
		if probs := velocityProblems(file, eff, vel); len(probs) > 0 {
			c.Violate(stream, idx, sig+":velocity", probs[0], withYAML(pieceDesc(p, f), p))
			return true
		}
	}
	n := 0
	for _, e := range mergedEvents(file) {
		if isControl(e) {
			n++
		}
	}
	c.Count("control_events_checked", n)
	return true
}

func checkC07(c *core.Ctx) {
	c.Rule("random instance documents in which every instance independently sets or omits bpm, meter, key, velocity, txt, lic, mrk (also on rests, after rests, on the last instance), all 28 keys, bpm 4..60,000,000, meters n/2^k, texts from a corpus of YAML-hostile and non-ASCII strings, plus the grid 28 keys x 16 subsets of the four override flags; " +
		"the tempo/time-signature/key-signature/text/lyric/marker events of the file must be exactly the expected ones at the expected ticks with the expected payload, and every note-on must carry the velocity of the dynamic in force (six velocities learned by probes, required strictly increasing); " +
		"a separate class of values SMF cannot carry (bpm 1..3, non-power-of-two or >128 denominators, numerators >255) may be refused but must not be written as something else; " +
		"non-trivial = piece with >= 2 mid-piece settings of different kinds, one of them on a rest; distinct by piece index")
	c.Assume("theory.Key.Signature", "smfdec", "exact tempo arithmetic (either neighbour when 60,000,000/bpm is not an integer)", "empty metadata strings are not generated")

	var vel map[string]int
	var once sync.Once
	getVel := func() map[string]int {
		once.Do(func() { vel = learnVelocities(c, "velocity") })
		return vel
	}
	c.StreamSeq("velocity", 1, func(_ int, _ *rand.Rand) {
		if v := getVel(); v != nil {
			c.Extra("velocities", v)
			c.Nontrivial("velocity-order")
		}
	})
	if getVel() == nil && c.OnlyStream == "" {
		return
	}

	c.Stream("random", c.N(4000, 100000), func(i int, r *rand.Rand) {
		p := model.RandPiece(r, model.GenOpts{MinLen: 1, MaxLen: c.N(10, 30), RestProb: 0.3, SettingProb: 0.3, TextProb: 0.25, KeyChanges: true, BassProb: 0.3, MaxDeg: 9, Tiny: true})
		var f model.Flags
		if r.Intn(3) == 0 {
			if r.Intn(2) == 0 {
				f.Key = model.RandKey(r)
			}
			if r.Intn(2) == 0 {
				f.BPM = model.RandBPM(r)
			}
			if r.Intn(2) == 0 {
				m := model.RandMeter(r)
				f.Meter = fmt.Sprintf("%d/%d", m.Num, m.Den)
			}
			if r.Intn(2) == 0 {
				f.Velocity = model.Dynamics[r.Intn(6)]
			}
		}
		if !p.Effective(f).AllInRange() || !p.TotalBelow(960, 1<<28) {
			c.Count("skipped", 1)
			return
		}
		if !judgeControls(c, "random", i, p, f, randWriteOpts(r), getVel(), "") {
			return
		}
		kinds := map[string]bool{}
		onRest := false
		for j, in := range p.Inst {
			if j == 0 {
				continue
			}
			for k, set := range map[string]bool{"bpm": in.BPM != 0, "meter": in.Meter != nil, "key": in.Key != "", "vel": in.Velocity != "", "text": len(in.Meta) > 0} {
				if set {
					kinds[k] = true
					if in.Chord == nil {
						onRest = true
					}
				}
			}
			if in.Key != "" {
				c.Seen("keys_set", in.Key)
			}
		}
		if len(kinds) >= 2 && onRest {
			c.Nontrivial(fmt.Sprint(i))
		}
		if c.WantSample() {
			c.Sample(pieceDesc(p, f))
		}
	})

	// durations from the machine-word family of C02 (denominators of 30..64 bits, lengths from a fraction of a tick
	// to thousands of ticks, next to half ticks): every control event after such an instance must still sit at the
	// exact tick
	c.Stream("oddlengths", c.N(1200, 20000), func(i int, r *rand.Rand) {
		p := model.RandPiece(r, model.GenOpts{MinLen: 3, MaxLen: 7, RestProb: 0.3, SettingProb: 0.5, TextProb: 0.4, KeyChanges: true, MaxDeg: 7})
		hit := 0
		for j := range p.Inst[:len(p.Inst)-1] {
			if j == 0 || r.Intn(2) == 0 {
				v, _ := wordSizeValues(r, i+j)
				if r.Intn(6) == 0 {
					// dyadic values that are exact in float64 while 960 times them is not (C02 `nearhalfsums`)
					v = [][]model.Frac{{{Num: 4487180253729041, Den: 4503599627370496}}, {{Num: 4243235273913139, Den: 4503599627370496}}, {{Num: 1, Den: 2}, {Num: 775228998357265, Den: 2251799813685248}}}[r.Intn(3)]
				}
				p.Inst[j].Values = v
				hit++
			}
		}
		f := model.Flags{Track: 1 + r.Intn(3)}
		for _, in := range p.Inst {
			if shortValues(in.Values) {
				// a chord of no length strikes at the same tick as the next one: only the order of the events
				// of a single track tells them apart
				f.Track = 1
			}
		}
		if !p.Effective(f).AllInRange() || !p.TotalBelow(960, 1<<28) {
			c.Count("skipped", 1)
			return
		}
		if judgeControls(c, "oddlengths", i, p, f, writeOpts{}, getVel(), "") {
			c.Nontrivial(fmt.Sprintf("oddlengths%d", i))
		}
	})

	// the same controls stated in chord text ({bpm=,mtr=,key=,vel=,txt=...}) and converted by `crd text conv degree`:
	// what crd prints for a setting must read back as the setting (a meter of 3/1 printed as 3 is still 3/1)
	c.Stream("viatext", c.N(800, 15000), func(i int, r *rand.Rand) {
		p := model.RandPiece(r, model.GenOpts{MinLen: 2, MaxLen: 8, RestProb: 0.25, SettingProb: 0.6, TextProb: 0.3, KeyChanges: true, BassProb: 0.3, MaxDeg: 7, SimpleOnly: true, TextSafe: true})
		// whole-note meters on purpose: crd prints N/1 as the bare number N
		for j := range p.Inst {
			if p.Inst[j].Meter != nil && r.Intn(3) == 0 {
				p.Inst[j].Meter.Den = 1
			}
		}
		chords := 0
		for _, in := range p.Inst {
			if in.Chord != nil {
				chords++
			}
		}
		// (a text of rests only has no notation and is refused by text conv: pinned by an existing test)
		if _, ok := p.DegreeTextPiece(model.TextOpts{}); !ok || chords == 0 {
			c.Count("skipped", 1)
			return
		}
		f := model.Flags{Track: 1 + r.Intn(2)}
		if !p.Effective(f).AllInRange() || !p.TotalBelow(960, 1<<28) {
			c.Count("skipped", 1)
			return
		}
		if judgeControls(c, "viatext", i, p, f, writeOpts{viaText: true}, getVel(), "") {
			c.Nontrivial(fmt.Sprintf("viatext%d", i))
		}
	})

	// grid: 28 keys x 16 flag subsets; the second instance repeats settings so that "first instance only" is visible
	keys := theory.Supported()
	c.Stream("flags", len(keys)*16, func(i int, r *rand.Rand) {
		k := keys[i%len(keys)]
		mask := i / len(keys)
		var f model.Flags
		if mask&1 != 0 {
			f.Key = k.String()
		}
		if mask&2 != 0 {
			f.BPM = model.RandBPM(r)
		}
		if mask&4 != 0 {
			m := model.RandMeter(r)
			f.Meter = fmt.Sprintf("%d/%d", m.Num, m.Den)
		}
		if mask&8 != 0 {
			f.Velocity = model.Dynamics[r.Intn(6)]
		}
		p := model.RandPiece(r, model.GenOpts{MinLen: 2, MaxLen: 4, RestProb: 0.2, SettingProb: 0.5, TextProb: 0.2, KeyChanges: true, MaxDeg: 7})
		if mask&1 == 0 {
			p.Inst[0].Key = k.String()
		}
		if !p.Effective(f).AllInRange() {
			return
		}
		if judgeControls(c, "flags", i, p, f, writeOpts{}, getVel(), "") {
			c.Seen("flag_subsets", fmt.Sprint(mask))
			if mask != 0 {
				c.Nontrivial(fmt.Sprintf("flags:%s:%d", k, mask))
			}
		}
	})

	// values the file format cannot carry: refusal is fine, writing something else is not
	type unrep struct {
		name string
		mod  func(in *model.Instance)
		flag func(f *model.Flags)
		// no admissible event exists at all (a tempo below one microsecond per quarter): acceptance itself is the violation
		mustRefuse bool
	}
	var cases []unrep
	for _, b := range []uint64{60000001, 90000000, 120000001, 4294967296, 18446744073709551615} {
		b := b
		cases = append(cases, unrep{fmt.Sprintf("bpm=%d", b), func(in *model.Instance) { in.BPM = b }, func(f *model.Flags) { f.BPM = b }, b > 120000000})
	}
	for _, b := range []uint64{1, 2, 3} {
		b := b
		cases = append(cases, unrep{fmt.Sprintf("bpm=%d", b), func(in *model.Instance) { in.BPM = b }, func(f *model.Flags) { f.BPM = b }, false})
	}
	for _, m := range []model.Frac{{5, 3}, {4, 6}, {7, 12}, {300, 4}, {256, 4}, {4, 256}, {3, 1024}, {1000, 1000}, {4, 100}} {
		m := m
		cases = append(cases, unrep{fmt.Sprintf("meter=%d/%d", m.Num, m.Den), func(in *model.Instance) { in.Meter = &m }, func(f *model.Flags) { f.Meter = fmt.Sprintf("%d/%d", m.Num, m.Den) }, false})
	}
	c.Stream("unrepresentable", len(cases)*3, func(i int, r *rand.Rand) {
		cs := cases[i%len(cases)]
		where := i / len(cases) // 0: first instance, 1: later instance (a rest), 2: flag
		p := model.Piece{Inst: []model.Instance{
			{Chord: &model.ChordSpec{Deg: theory.Interval{N: 1, Q: theory.Perfect}, Symbol: ""}, Values: one()},
			{Values: one()},
			{Chord: &model.ChordSpec{Deg: theory.Interval{N: 5, Q: theory.Perfect}, Symbol: "7"}, Values: one()},
		}}
		var f model.Flags
		switch where {
		case 0:
			cs.mod(&p.Inst[0])
		case 1:
			cs.mod(&p.Inst[1])
		default:
			cs.flag(&f)
		}
		r1, out := playPiece(c, p, f, writeOpts{})
		if infra(c, r1) {
			return
		}
		sig := fmt.Sprintf("unrepresentable:%s:where=%d", cs.name, where)
		if a := abnormal(r1); a != "" {
			c.Violate("unrepresentable", i, sig+":abnormal", "crd write "+a, withYAML(obs(r1), p))
			return
		}
		if !r1.OK() {
			c.Count("unrepresentable_refused", 1)
			c.Nontrivial(sig)
			return
		}
		if cs.mustRefuse {
			c.Violate("unrepresentable", i, sig+":accepted", fmt.Sprintf("%s is a tempo of less than half a microsecond per quarter note, which no MIDI file can state, but crd write accepts it", cs.name), withYAML(pieceDesc(p, f), p))
			return
		}
		file, derr := decodeSMF(out)
		if file == nil {
			c.Violate("unrepresentable", i, sig+":decode", derr, withYAML(obs(r1), p))
			return
		}
		if probs := controlProblems(file, p.Effective(f)); len(probs) > 0 {
			c.Violate("unrepresentable", i, sig, fmt.Sprintf("%s cannot be carried by a MIDI file but crd write accepts it and writes something else: %s", cs.name, probs[0]), withYAML(pieceDesc(p, f), p))
		}
	})
}
