package main

import (
	"bytes"
	"encoding/json"
	"fmt"
	"math/rand"
	"os"
	"strconv"
	"strings"

	"verif/core"
	"verif/model"
	"verif/runner"
	"verif/smfdec"
	"verif/theory"
)

func init() { register("C10", checkC10) }

// smfProblems compares a decoded single-track file with the model: pitches, timing, controls.
func smfProblems(f *smfdec.File, eff model.Piece) []string {
	var probs []string
	runs := chordRuns(f)
	keys := eff.KeysInForce()
	k := 0
	for i, in := range eff.Inst {
		if in.Chord == nil {
			continue
		}
		want, err := model.ExpectedNotes(*in.Chord, keys[i])
		if err != nil {
			return []string{"model: " + err.Error()}
		}
		if k >= len(runs) {
			return []string{fmt.Sprintf("instance %d sounds nothing", i)}
		}
		if !eqInts(sortedInts(runs[k]), sortedInts(want)) {
			probs = append(probs, fmt.Sprintf("instance %d sounds %v, written %v", i, sortedInts(runs[k]), sortedInts(want)))
			return probs
		}
		k++
	}
	if k != len(runs) {
		return []string{fmt.Sprintf("%d chords sound, %d written", len(runs), k)}
	}
	if p := timingProblems(f, eff); len(p) > 0 {
		return p[:1]
	}
	if p := controlProblems(f, eff); len(p) > 0 {
		return p[:1]
	}
	return nil
}

// parseProblems compares the YAML printed by `write parse` with the model.
func parseProblems(out []byte, p model.Piece) []string {
	l, err := yamlList(out)
	if err != nil {
		return []string{"write parse output is not YAML: " + err.Error()}
	}
	if len(l) != len(p.Inst) {
		return []string{fmt.Sprintf("%d instances read back, %d written", len(l), len(p.Inst))}
	}
	for i, e := range l {
		m, _ := e.(map[string]any)
		in := p.Inst[i]
		ch, hasChord := m["chord"].(map[string]any)
		if hasChord != (in.Chord != nil) {
			return []string{fmt.Sprintf("instance %d: chord present=%v, written=%v", i, hasChord, in.Chord != nil)}
		}
		if in.Chord != nil {
			d, err := theory.ParseNotation(asStr(ch["degree"]))
			if err != nil || d != in.Chord.Deg {
				return []string{fmt.Sprintf("instance %d: degree %q read back, %s written", i, asStr(ch["degree"]), in.Chord.Deg.Notation())}
			}
			// the symbol may be shown resolved (chord: {name, meta: {display}}) or as written (name: ...)
			cc, _ := ch["chord"].(map[string]any)
			cm, _ := cc["meta"].(map[string]any)
			_, plain := ch["name"]
			if !(asStr(cc["name"]) == in.Chord.Symbol && cc != nil) && !(asStr(cm["display"]) == in.Chord.Symbol && cm != nil) && !(plain && asStr(ch["name"]) == in.Chord.Symbol) {
				return []string{fmt.Sprintf("instance %d: chord %q/%q/%q read back, symbol %q written", i, asStr(cc["name"]), asStr(cm["display"]), asStr(ch["name"]), in.Chord.Symbol)}
			}
			wantBass := theory.Interval{N: 1, Q: theory.Perfect}
			if in.Chord.Bass != nil {
				wantBass = *in.Chord.Bass
			}
			if _, has := ch["base"]; !has && in.Chord.Bass == nil {
				// an absent bass may stay absent
			} else if b, err := theory.ParseNotation(asStr(ch["base"])); err != nil || b != wantBass {
				return []string{fmt.Sprintf("instance %d: base %q read back, %s written", i, asStr(ch["base"]), wantBass.Notation())}
			}
		}
		var vals []string
		for _, v := range in.Values {
			vals = append(vals, v.String())
		}
		if got := strList(m["values"]); !eqStrs(got, vals) {
			return []string{fmt.Sprintf("instance %d: values %v read back, %v written", i, got, vals)}
		}
		wantBPM := ""
		if in.BPM != 0 {
			wantBPM = strconv.FormatUint(in.BPM, 10)
		}
		if asStr(m["bpm"]) != wantBPM {
			return []string{fmt.Sprintf("instance %d: bpm %q read back, %q written", i, asStr(m["bpm"]), wantBPM)}
		}
		if asStr(m["velocity"]) != in.Velocity {
			return []string{fmt.Sprintf("instance %d: velocity %q read back, %q written", i, asStr(m["velocity"]), in.Velocity)}
		}
		wantMeter := ""
		if in.Meter != nil {
			wantMeter = fmt.Sprintf("%d/%d", in.Meter.Num, in.Meter.Den)
			if in.Meter.Den == 1 {
				wantMeter = fmt.Sprint(in.Meter.Num)
			}
		}
		if asStr(m["meter"]) != wantMeter {
			return []string{fmt.Sprintf("instance %d: meter %q read back, %q written", i, asStr(m["meter"]), wantMeter)}
		}
		if asStr(m["key"]) != in.Key {
			return []string{fmt.Sprintf("instance %d: key %q read back, %q written", i, asStr(m["key"]), in.Key)}
		}
		mm, _ := m["meta"].(map[string]any)
		for k, v := range in.Meta {
			if got, ok := mm[k]; !ok || asStr(got) != v {
				return []string{fmt.Sprintf("instance %d: meta %s = %q read back, %q written", i, k, asStr(got), v)}
			}
		}
	}
	return nil
}

func stripText(l []string) []string {
	var out []string
	for _, s := range l {
		if strings.Contains(s, " meta 01 ") {
			continue
		}
		out = append(out, s)
	}
	return out
}

func checkC10(c *core.Ctx) {
	c.Rule("pipelines over chord texts rendered from the piece model in both notations (all intervals the notation can express incl. compound ones, all 28 keys via {key=}, tempo/meter/dynamics, metadata strings from a YAML-hostile corpus): text conv | write parse (compared field by field with the model), text conv | write (decoded SMF compared with the model), ... | write conv -c cmt | write and write conv twice (idempotence, same music apart from the documented txt); instance documents -> write conv -> write compared with direct write (numbers with leading zeros, final rests whose text ends in blank lines, -o onto existing files, in place); " +
		"library level: Marshal/Unmarshal round trip of every scalar type (every Degree up to 64, 28 keys, fractions with 64-bit operands, meters, dynamics, bpm, metadata maps with every pair of a 40-rune hostile alphabet) and of whole instances; non-trivial = pipeline with an altered or compound interval, a non-ASCII or YAML-significant string and a setting; distinct by text")
	c.Assume("score model (theory + exact ticks)", "smfdec", "yaml.v3 as the harness's reader", "metadata values that chord text cannot carry ({ } = , and leading blanks) are not generated for the text pipelines")

	c.Stream("pipeline", c.N(2000, 40000), func(i int, r *rand.Rand) {
		syllable := i%3 == 0
		maxDeg := 15
		if syllable {
			maxDeg = 7
		}
		p := model.RandPiece(r, model.GenOpts{MinLen: 1, MaxLen: 8, RestProb: 0.2, SettingProb: 0.3, TextProb: 0.35, KeyChanges: true, BassProb: 0.4, MaxDeg: maxDeg, SimpleOnly: true, TextSafe: true})
		if syllable {
			for j := range p.Inst {
				if ch := p.Inst[j].Chord; ch != nil && ch.Bass != nil && ch.Bass.N > 7 {
					ch.Bass.N -= 7
				}
			}
		}
		// chord text cannot carry free metadata next to settings without mixing: keep both
		var text string
		var ok bool
		var args []string
		start := "C"
		pad := i%5 == 2 || i%5 == 3
		if syllable {
			start = model.RandKey(r)
			text, ok = p.SyllableTextPiece(start, model.TextOpts{ZeroPad: pad, UnicodeAcc: i%7 == 3})
			args = []string{"text", "conv", "syllable", "--key", start}
		} else {
			text, ok = p.DegreeTextPiece(model.TextOpts{Underscore: r.Intn(2) == 0, ZeroPad: pad})
			args = []string{"text", "conv", "degree"}
		}
		if !ok {
			c.Count("skipped_inexpressible", 1)
			return
		}
		hasChord := false
		for _, in := range p.Inst {
			if in.Chord != nil {
				hasChord = true
			}
		}
		if !hasChord {
			return
		}
		// the model as `write` will see it: metadata map contains the setting pairs too
		pm := model.Piece{Inst: append([]model.Instance(nil), p.Inst...)}
		for j := range pm.Inst {
			in := pm.Inst[j]
			meta := map[string]string{}
			for _, kv := range in.MetaPairsPad(pad) { // the metadata map keeps the value as written
				meta[kv[0]] = kv[1]
			}
			if len(meta) > 0 {
				in.Meta = meta
			} else {
				in.Meta = nil
			}
			pm.Inst[j] = in
		}
		flags := model.Flags{}
		if syllable {
			flags.Key = start
		}
		eff := pm.Effective(flags)
		if !eff.AllInRange() || !eff.TotalBelow(960, 1<<28) {
			c.Count("skipped_out_of_range", 1)
			return
		}
		det := map[string]any{"text": short(text, 1500), "args": strings.Join(args, " ")}
		// delivery of the text: at once, in pieces with pauses (short reads), with --debug (log lines belong on stderr)
		copt := runner.Opt{Stdin: []byte(text)}
		cargs := args
		if i%6 == 2 {
			copt.StdinPieces = 2 + i%3
		}
		// standard input that is not a fresh pipe: a regular file, a file whose first line somebody else has read
		// already (the text starts at the current offset), a socket
		switch i % 12 {
		case 4:
			copt.StdinKind = "fileoffset"
		case 7:
			copt.StdinKind = "file"
		case 10:
			copt.StdinKind = "socket"
		}
		if i%8 == 5 {
			cargs = append([]string{"--debug"}, args...)
		}
		conv := c.Crd.Run(copt, cargs...)
		c.Eval(1)
		if infra(c, conv) {
			return
		}
		// the same conversion written with -o onto a file that already holds an older, longer document:
		// what `crd write` reads from that file must be what stdout carried
		if i%4 == 0 && conv.OK() {
			path := c.Scratch.Path("song.yml")
			os.WriteFile(path, bytes.Repeat([]byte("- values: [\"1\"]\n"), 3000), 0o644)
			co := run(c, []byte(text), append(append([]string{}, args...), "-o", path)...)
			c.Eval(1)
			if infra(c, co) {
				return
			}
			if got := readFileOrNil(path); !co.OK() || !bytes.Equal(got, conv.Stdout) {
				c.Violate("pipeline", i, "pipeline:conv-o-existing-file", fmt.Sprintf("text conv -o onto an existing longer file leaves %d bytes, stdout carries %d (ok=%v): %s", len(got), len(conv.Stdout), co.OK(), firstLineDiff(conv.Stdout, got)), mergeMaps(det, map[string]any{"run": obs(co)}))
				return
			}
		}
		if a := abnormal(conv); a != "" || !conv.OK() {
			c.Violate("pipeline", i, "pipeline:conv-failed", "text conv refuses a text rendered from the model "+a, mergeMaps(det, map[string]any{"run": obs(conv)}))
			return
		}
		det["instances_yaml"] = short(string(conv.Stdout), 2500)
		wargs := flags.Args()
		// write parse
		wopt := runner.Opt{Stdin: conv.Stdout}
		switch i % 12 {
		case 1:
			wopt.StdinKind = "fileoffset"
		case 9:
			wopt.StdinKind = "socket"
		}
		wp := c.Crd.Run(wopt, append([]string{"write", "parse"}, wargs...)...)
		c.Eval(1)
		if infra(c, wp) {
			return
		}
		if a := abnormal(wp); a != "" || !wp.OK() {
			c.Violate("pipeline", i, "pipeline:write-parse-refuses", "crd write parse refuses what text conv printed "+a, mergeMaps(det, map[string]any{"run": obs(wp)}))
			return
		}
		if probs := parseProblems(wp.Stdout, eff); len(probs) > 0 {
			c.Violate("pipeline", i, "pipeline:parse-differs", "text conv | write parse: "+probs[0], det)
			return
		}
		// write (every seventh time the document is a FILE argument that is a pipe)
		wa := append([]string{"write"}, wargs...)
		if i%7 == 3 {
			wa = append(wa, "/dev/stdin")
		}
		w := run(c, conv.Stdout, wa...)
		c.Eval(1)
		if infra(c, w) {
			return
		}
		if a := abnormal(w); a != "" || !w.OK() {
			c.Violate("pipeline", i, "pipeline:write-refuses", "crd write refuses what text conv printed "+a, mergeMaps(det, map[string]any{"run": obs(w)}))
			return
		}
		f, derr := decodeSMF(w.Stdout)
		if f == nil {
			c.Violate("pipeline", i, "pipeline:decode", derr, det)
			return
		}
		if probs := smfProblems(f, eff); len(probs) > 0 {
			c.Violate("pipeline", i, "pipeline:music-differs", "text conv | write: "+probs[0], det)
			return
		}
		// write conv -c cmt | write, and twice
		wc := run(c, conv.Stdout, append([]string{"write", "conv", "-c", "cmt"}, wargs...)...)
		c.Eval(1)
		if infra(c, wc) {
			return
		}
		if a := abnormal(wc); a != "" || !wc.OK() {
			c.Violate("pipeline", i, "pipeline:write-conv-refuses", "crd write conv refuses what text conv printed "+a, mergeMaps(det, map[string]any{"run": obs(wc)}))
			return
		}
		// in place: the annotated document replaces the file it was read from
		if i%4 == 1 {
			path := c.Scratch.File("inplace.yml", conv.Stdout)
			ip := run(c, nil, append(append([]string{"write", "conv", "-c", "cmt"}, wargs...), path, "-o", path)...)
			c.Eval(1)
			if infra(c, ip) {
				return
			}
			if got := readFileOrNil(path); !ip.OK() || !bytes.Equal(got, wc.Stdout) {
				c.Violate("pipeline", i, "pipeline:conv-in-place", fmt.Sprintf("write conv -c cmt FILE -o FILE (in place) leaves %d bytes, the conversion printed to stdout has %d (ok=%v)", len(got), len(wc.Stdout), ip.OK()), mergeMaps(det, map[string]any{"run": obs(ip)}))
				return
			}
		}
		wc2 := run(c, wc.Stdout, "write", "conv", "-c", "cmt")
		w2 := run(c, wc.Stdout, "write")
		c.Eval(2)
		if infra(c, wc2) || infra(c, w2) {
			return
		}
		if a := abnormal(w2); a != "" || !w2.OK() {
			c.Violate("pipeline", i, "pipeline:conv-output-refused", "crd write refuses the output of crd write conv "+a, mergeMaps(det, map[string]any{"conv_output": short(string(wc.Stdout), 2000), "run": obs(w2)}))
			return
		}
		f2, derr := decodeSMF(w2.Stdout)
		if f2 == nil {
			c.Violate("pipeline", i, "pipeline:conv-decode", derr, det)
			return
		}
		if a, b := stripText(mergedMultiset(f)), stripText(mergedMultiset(f2)); !eqStrs(a, b) {
			c.Violate("pipeline", i, "pipeline:conv-music-differs", "write conv -c cmt | write does not play the music of the document it was made from: "+firstDiff(b, a), mergeMaps(det, map[string]any{"conv_output": short(string(wc.Stdout), 2000)}))
			return
		}
		if !wc2.OK() || !bytes.Equal(wc2.Stdout, wc.Stdout) {
			c.Violate("pipeline", i, "pipeline:conv-not-idempotent", "write conv -c cmt applied to its own output changes it: "+firstLineDiff(wc.Stdout, wc2.Stdout), det)
			return
		}
		altered, hostile, setting := false, false, false
		for _, in := range p.Inst {
			if in.Chord != nil && (in.Chord.Deg.N > 7 || (in.Chord.Deg.Q != theory.Major && in.Chord.Deg.Q != theory.Perfect)) {
				altered = true
			}
			for _, v := range in.Meta {
				if strings.ContainsAny(v, ":#-?*&!|>'\"%@`") || !isASCII(v) {
					hostile = true
				}
			}
			if in.BPM != 0 || in.Meter != nil || in.Velocity != "" || in.Key != "" {
				setting = true
			}
		}
		if altered && hostile && setting {
			c.Nontrivial(text)
		}
		if c.WantSample() {
			c.Sample(map[string]any{"text": short(text, 300), "args": strings.Join(args, " ")})
		}
	})

	// instance documents (not reachable from chord text: doubly altered intervals, hostile strings) through write conv
	c.Stream("documents", c.N(500, 15000), func(i int, r *rand.Rand) {
		p := model.RandPiece(r, model.GenOpts{MinLen: 1, MaxLen: 8, RestProb: 0.2, SettingProb: 0.3, TextProb: 0.4, KeyChanges: true, BassProb: 0.5})
		if !p.Effective(model.Flags{}).AllInRange() || !p.TotalBelow(960, 1<<28) {
			return
		}
		if r.Intn(4) == 0 {
			// the document ends with a rest whose text ends in blank lines (block scalars with keep chomping)
			p.Inst = append(p.Inst, model.Instance{Values: one(), Meta: map[string]string{[]string{"lic", "mrk"}[r.Intn(2)]: []string{"end of verse\n\n", "coda\n\n\n", "x\n", "two\n\nbreaks\n\n"}[r.Intn(4)]}})
		}
		style := randWriteOpts(r).style
		if i%3 == 0 && !style.JSON {
			// texts stated by reference: a lyric or marker that comes back is written as an alias of its first
			// occurrence, the first pair of a metadata map arrives through a merge key
			style.Anchors = true
			if len(p.Inst) >= 2 {
				a, b := r.Intn(len(p.Inst)), r.Intn(len(p.Inst))
				if p.Inst[a].Meta == nil {
					p.Inst[a].Meta = map[string]string{}
				}
				p.Inst[a].Meta["lic"] = []string{"la la la", "refrain: x", "- dash", "1e3"}[r.Intn(4)]
				p.Inst[a].Meta["mrk"] = []string{"A", "verse 2", "*star"}[r.Intn(3)]
				if a != b {
					if p.Inst[b].Meta == nil {
						p.Inst[b].Meta = map[string]string{}
					}
					p.Inst[b].Meta["lic"] = p.Inst[a].Meta["lic"]
					p.Inst[b].Meta["mrk"] = p.Inst[a].Meta["lic"]
				}
			}
		}
		doc := p.YAML(style)
		det := map[string]any{"yaml": short(string(doc), 2500)}
		lb := ""
		for _, in := range p.Inst {
			if metaHasLeadingBreak(in.Meta) {
				lb = ":multi-line string starting with a line break or tab"
			}
		}
		w := run(c, doc, "write")
		wc := run(c, doc, "write", "conv", "-c", "cmt")
		c.Eval(2)
		if infra(c, w) || infra(c, wc) {
			return
		}
		if a := abnormal(wc); a != "" {
			c.Violate("documents", i, "documents:abnormal", "write conv "+a, mergeMaps(det, map[string]any{"run": obs(wc)}))
			return
		}
		if !w.OK() {
			c.Violate("documents", i, "documents:refused", "crd write refuses a valid instances document", mergeMaps(det, map[string]any{"write": obs(w)}))
			return
		}
		if !w.OK() || !wc.OK() {
			if w.OK() != wc.OK() {
				c.Violate("documents", i, "documents:accept-differs", fmt.Sprintf("crd write accepts=%v but crd write conv accepts=%v", w.OK(), wc.OK()), mergeMaps(det, map[string]any{"write": obs(w), "conv": obs(wc)}))
			}
			return
		}
		w2 := run(c, wc.Stdout, "write")
		c.Eval(1)
		if infra(c, w2) {
			return
		}
		if a := abnormal(w2); a != "" || !w2.OK() {
			c.Violate("documents", i, "documents:conv-output-refused"+lb, "crd write refuses the output of crd write conv "+a, mergeMaps(det, map[string]any{"conv_output": short(string(wc.Stdout), 2000), "run": obs(w2)}))
			return
		}
		f1, e1 := decodeSMF(w.Stdout)
		f2, e2 := decodeSMF(w2.Stdout)
		if f1 == nil || f2 == nil {
			c.Violate("documents", i, "documents:decode", e1+e2, det)
			return
		}
		if a, b := stripText(mergedMultiset(f1)), stripText(mergedMultiset(f2)); !eqStrs(a, b) {
			c.Violate("documents", i, "documents:conv-music-differs"+lb, "write conv -c cmt | write does not play the music of the document it was made from: "+firstDiff(b, a), mergeMaps(det, map[string]any{"conv_output": short(string(wc.Stdout), 2000)}))
			return
		}
		// texts other than txt survive write conv
		var want, got []string
		for _, e := range mergedEvents(f1) {
			if e.Kind == smfdec.Meta && (e.MetaType == smfdec.MetaLyr || e.MetaType == smfdec.MetaMark) {
				want = append(want, eventKey(e))
			}
		}
		for _, e := range mergedEvents(f2) {
			if e.Kind == smfdec.Meta && (e.MetaType == smfdec.MetaLyr || e.MetaType == smfdec.MetaMark) {
				got = append(got, eventKey(e))
			}
		}
		if !eqStrs(sortedCopy(want), sortedCopy(got)) {
			c.Violate("documents", i, "documents:texts"+lb, "lyric/marker texts change through write conv: "+firstDiff(got, want), det)
			return
		}
		// ... and they are the texts the document states, however the document states them (plain, quoted, block
		// scalar, alias of an earlier text, merge key)
		var stated, played []string
		for _, in := range p.Inst {
			for _, k := range []string{"lic", "mrk"} {
				if t, ok := in.Meta[k]; ok {
					stated = append(stated, k+":"+t)
				}
			}
		}
		for _, e := range mergedEvents(f1) {
			if e.Kind == smfdec.Meta && e.MetaType == smfdec.MetaLyr {
				played = append(played, "lic:"+string(e.Data))
			}
			if e.Kind == smfdec.Meta && e.MetaType == smfdec.MetaMark {
				played = append(played, "mrk:"+string(e.Data))
			}
		}
		if !eqStrs(sortedCopy(stated), sortedCopy(played)) {
			c.Violate("documents", i, "documents:stated-texts", "the lyric/marker events of crd write are not the texts the document states: "+firstDiff(sortedCopy(played), sortedCopy(stated)), det)
			return
		}
		c.Nontrivial(fmt.Sprintf("doc%d", i))
	})

	// a long text whose conversion fails at a late chord: text conv prints instances or fails - never the first part of
	// the piece (what it prints is read by crd write as the whole piece)
	c.Stream("lateerror", c.N(16, 200), func(i int, r *rand.Rand) {
		n := 90 + r.Intn(500)
		bad := []string{"C[0]", "D[1]{bpm=12O}", "E[1]{vel=zzz}", "F[1]{key=H}", "G[1/0]", "A[1]{mtr=4/0}", "Eb[1]{key=F#m} Eb[1]", "C[1]{bpm=0}"}[i%8]
		unit := []string{"C[1]{lic=la la la la la la la la} ", "Am7/G[1/2,1/2] F[2] ", "G_7[1]{txt=verse} R[1] "}[i/8%3]
		at := n - r.Intn(20)
		if i%5 == 4 {
			at = n / 2
		}
		text := strings.Repeat(unit, at) + bad + " " + strings.Repeat(unit, n-at)
		for k, args := range [][]string{{"text", "conv", "syllable"}, {"text", "conv", "syllable", "-o"}} {
			var outPath string
			if k == 1 {
				outPath = c.Scratch.Path("late.yml")
				os.Remove(outPath)
				args = append(append([]string{}, args...), outPath)
			}
			res := run(c, []byte(text), args...)
			c.Eval(1)
			if infra(c, res) {
				return
			}
			det := map[string]any{"bad_chord": bad, "position": at, "chords_around": n, "run": obs(res)}
			if a := abnormal(res); a != "" {
				c.Violate("lateerror", i, "lateerror:abnormal", "text conv "+a, det)
				return
			}
			if res.OK() {
				c.Violate("lateerror", i, "lateerror:accepted:"+bad, fmt.Sprintf("text conv accepts a piece whose chord %d is %s", at, bad), det)
				return
			}
			printed := res.Stdout
			if k == 1 {
				printed = readFileOrNil(outPath)
			}
			if len(bytes.TrimSpace(printed)) > 0 {
				c.Violate("lateerror", i, "lateerror:partial", fmt.Sprintf("text conv fails at chord %d (%s) of %d but has printed %d bytes of instances (%s)", at, bad, n, len(printed), []string{"stdout", "-o file"}[k]), det)
				return
			}
		}
		c.Nontrivial(fmt.Sprintf("lateerror%d", i))
	})

	// large pieces: the interchange document grows far beyond any buffer size (64 KiB, 1 MiB)
	c.Stream("large", c.N(3, 12), func(i int, r *rand.Rand) {
		n := []int{1500, 3000, 700, 6000}[i%4]
		p := model.RandPiece(r, model.GenOpts{MinLen: n, MaxLen: n, RestProb: 0.1, SettingProb: 0.02, TextProb: 0.05, KeyChanges: true, BassProb: 0.3, MaxDeg: 9, SimpleOnly: true, TextSafe: true})
		if i%2 == 1 { // one very long lyric
			p.Inst[1].Meta = map[string]string{"lic": strings.Repeat("la ", 30000) + "end"}
		}
		text, ok := p.DegreeTextPiece(model.TextOpts{})
		if !ok {
			return
		}
		pm := model.Piece{Inst: append([]model.Instance(nil), p.Inst...)}
		for j := range pm.Inst {
			in := pm.Inst[j]
			meta := map[string]string{}
			for _, kv := range in.MetaPairs() {
				meta[kv[0]] = kv[1]
			}
			in.Meta = nil
			if len(meta) > 0 {
				in.Meta = meta
			}
			pm.Inst[j] = in
		}
		if !pm.AllInRange() || !pm.TotalBelow(960, 1<<28) {
			return
		}
		conv := runCPU(c, 120, []byte(text), "text", "conv", "degree")
		c.Eval(1)
		if infra(c, conv) {
			return
		}
		det := map[string]any{"chords": n, "text_bytes": len(text), "yaml_bytes": len(conv.Stdout)}
		if a := abnormal(conv); a != "" || !conv.OK() {
			c.Violate("large", i, "large:conv-failed", fmt.Sprintf("text conv refuses a text of %d instances %s", n, a), mergeMaps(det, map[string]any{"run": obs(conv)}))
			return
		}
		for _, via := range []string{"stdin", "file"} {
			var w *runner.Result
			if via == "stdin" {
				w = runCPU(c, 120, conv.Stdout, "write")
			} else {
				w = runCPU(c, 120, nil, "write", c.Scratch.File("large.yml", conv.Stdout))
			}
			c.Eval(1)
			if infra(c, w) {
				return
			}
			if a := abnormal(w); a != "" || !w.OK() {
				c.Violate("large", i, "large:write-refuses:"+via, fmt.Sprintf("crd write (%s) refuses the %d byte document text conv printed for %d instances %s", via, len(conv.Stdout), n, a), mergeMaps(det, map[string]any{"run": obs(w)}))
				return
			}
			f, derr := decodeSMF(w.Stdout)
			if f == nil {
				c.Violate("large", i, "large:decode", derr, det)
				return
			}
			if probs := smfProblems(f, pm); len(probs) > 0 {
				c.Violate("large", i, "large:music-differs:"+via, fmt.Sprintf("text conv | write (%s) of %d instances: %s", via, n, probs[0]), det)
				return
			}
		}
		wc := runCPU(c, 120, conv.Stdout, "write", "conv", "-c", "cmt")
		c.Eval(1)
		if infra(c, wc) {
			return
		}
		if l, err := yamlList(wc.Stdout); !wc.OK() || err != nil || len(l) != len(p.Inst) {
			c.Violate("large", i, "large:write-conv", fmt.Sprintf("write conv of a %d instance document prints %d instances (ok=%v)", len(p.Inst), len(l), wc.OK()), det)
			return
		}
		c.Nontrivial(fmt.Sprintf("large%d", i))
		c.Count("large_document_bytes", len(conv.Stdout))
	})

	// library level scalars
	if c.Worker == "" {
		c.Extra("library_level", "skipped: worker does not build against the current tree")
		return
	}
	// chords that spell the same digits when degree, symbol and bass are run together (17 + "" / 1 + "7"), in one text
	c.Stream("collide", c.N(120, 2000), func(i int, r *rand.Rand) {
		p := collisionPiece(r)
		text, ok := p.DegreeTextPiece(model.TextOpts{Underscore: true})
		if !ok {
			c.Inconclusive("harness: collision piece not expressible in degree text")
			return
		}
		det := map[string]any{"text": text}
		conv := run(c, []byte(text), "text", "conv", "degree")
		c.Eval(1)
		if infra(c, conv) {
			return
		}
		if a := abnormal(conv); a != "" || !conv.OK() {
			c.Violate("collide", i, "collide:conv-failed", "text conv degree refuses "+qs([]byte(text))+" "+a, mergeMaps(det, map[string]any{"run": obs(conv)}))
			return
		}
		doc := conv.Stdout
		if i%2 == 1 {
			cv := run(c, doc, "write", "conv", "-c", "cmt")
			c.Eval(1)
			if infra(c, cv) {
				return
			}
			if a := abnormal(cv); a != "" || !cv.OK() {
				c.Violate("collide", i, "collide:writeconv-failed", "write conv refuses what text conv printed "+a, mergeMaps(det, map[string]any{"run": obs(cv)}))
				return
			}
			doc = cv.Stdout
		}
		w := run(c, doc, "write")
		c.Eval(1)
		if infra(c, w) {
			return
		}
		if a := abnormal(w); a != "" || !w.OK() {
			c.Violate("collide", i, "collide:write-failed", "crd write refuses the converted text "+a, mergeMaps(det, map[string]any{"run": obs(w)}))
			return
		}
		file, derr := decodeSMF(w.Stdout)
		if file == nil {
			c.Violate("collide", i, "collide:decode", derr, det)
			return
		}
		runs := chordRuns(file)
		k := 0
		for j, in := range p.Inst {
			if in.Chord == nil {
				continue
			}
			want, _ := model.ExpectedNotes(*in.Chord, "C")
			if k >= len(runs) || !eqInts(sortedInts(runs[k]), sortedInts(want)) {
				var got []int
				if k < len(runs) {
					got = sortedInts(runs[k])
				}
				c.Violate("collide", i, "collide:notes", fmt.Sprintf("text %s: chord %d (degree %s, symbol %q) sounds %v after the round trip, written %v", qs([]byte(text)), j, in.Chord.Deg.Notation(), in.Chord.Symbol, got, sortedInts(want)), det)
				return
			}
			k++
		}
		c.Nontrivial(text)
	})

	// outputs whose length is an exact multiple of common buffer sizes: the printed document is complete
	blockTargets := []int{65536, 131072, 32768, 65535, 65537, 49152, 196608, 262144}
	c.Stream("blocksize", len(blockTargets)*3, func(i int, r *rand.Rand) {
		target := blockTargets[i%len(blockTargets)]
		mode := i / len(blockTargets) // 0: text conv to stdout, 1: text conv -o, 2: write conv -c cmt
		// l bytes of lyric spread over a fixed number of chords (one giant token would leave the promptness domain)
		const nChords = 300
		mk := func(l int) []byte {
			var b strings.Builder
			for k := 0; k < nChords; k++ {
				n := l / nChords
				if k == nChords-1 {
					n = l - (nChords-1)*(l/nChords)
				}
				if mode == 2 {
					b.WriteString("- chord: {degree: \"1\", name: \"m7\"}\n  values: [1]\n  meta: {lic: \"" + strings.Repeat("x", n) + "\"}\n")
				} else {
					b.WriteString("1m7[1]{lic=" + strings.Repeat("x", n) + "}\n")
				}
			}
			if mode == 2 {
				b.WriteString("- chord: {degree: \"5\", name: \"7\"}\n  values: [2]\n")
			} else {
				b.WriteString("5_7[2]")
			}
			return []byte(b.String())
		}
		produce := func(l int) (*runner.Result, []byte) {
			switch mode {
			case 0:
				res := run(c, mk(l), "text", "conv", "degree")
				return res, res.Stdout
			case 1:
				path := c.Scratch.Path("block.yml")
				res := run(c, mk(l), "text", "conv", "degree", "-o", path)
				return res, readFileOrNil(path)
			default:
				res := run(c, mk(l), "write", "conv", "-c", "cmt")
				return res, res.Stdout
			}
		}
		// the output grows by one byte per lyric byte: measure once, then aim
		l := max(target/2, nChords)
		res, out := produce(l)
		c.Eval(1)
		if infra(c, res) || !res.OK() || len(out) == 0 {
			return
		}
		l += target - len(out)
		if l < 1 {
			return
		}
		res, out = produce(l)
		c.Eval(1)
		if infra(c, res) {
			return
		}
		det := map[string]any{"target_bytes": target, "lyric_bytes": l, "mode": mode, "output_bytes": len(out), "run": obs(res)}
		if a := abnormal(res); a != "" || !res.OK() {
			c.Violate("blocksize", i, "blocksize:failed", fmt.Sprintf("conversion fails for an output of about %d bytes %s", target, a), det)
			return
		}
		// folding of the long scalar may shift the length by a few bytes: the point is completeness at whatever length results
		lst, err := yamlList(out)
		if err != nil || len(lst) != nChords+1 {
			c.Violate("blocksize", i, fmt.Sprintf("blocksize:%d:incomplete", target), fmt.Sprintf("a printed document of %d bytes (aimed at %d) is not the complete list of %d instances (err=%v, %d instances)", len(out), target, nChords+1, err, len(lst)), det)
			return
		}
		total := 0
		for _, e := range lst[:nChords] {
			m0, _ := e.(map[string]any)
			mm, _ := m0["meta"].(map[string]any)
			got := asStr(mm["lic"])
			if strings.Trim(got, "x") != "" {
				total = -1 << 30
			}
			total += len(got)
		}
		if total != l {
			c.Violate("blocksize", i, fmt.Sprintf("blocksize:%d:lyric", target), fmt.Sprintf("a printed document of %d bytes: the lyrics read back have %d bytes, written %d", len(out), total, l), det)
			return
		}
		c.Seen("printed_sizes", fmt.Sprint(len(out)))
		if len(out) == target {
			c.Nontrivial(fmt.Sprintf("block%d/%d", target, mode))
		}
	})

	// chord symbols of a user dictionary are free text too: symbols with line breaks, leading tabs or blanks, `<<`
	oddSymbols := []string{"\n7", "\tsus\n4", "a\nb", "\n", "<<", " m7", "m7 ", "null", "~", "1e3", "7\n", "\u2028x\ny", "- x", "k: v"}
	c.Stream("oddsymbols", len(oddSymbols), func(i int, r *rand.Rand) {
		sym := oddSymbols[i]
		dict := c.Scratch.File("odd-chord.yml", chordsYAML([]userChord{{Name: "Zodd", Display: sym, Attrs: []string{"Perfect1", "Major3", "Perfect5", "Major7"}}}))
		p := model.Piece{Inst: []model.Instance{
			{Chord: &model.ChordSpec{Deg: theory.Interval{N: 1, Q: theory.Perfect}, Symbol: sym}, Values: one()},
			{Chord: &model.ChordSpec{Deg: theory.Interval{N: 5, Q: theory.Perfect}, Symbol: "7"}, Values: one()},
			{Chord: &model.ChordSpec{Deg: theory.Interval{N: 4, Q: theory.Perfect}, Symbol: sym}, Values: one()},
		}}
		doc := p.YAML(model.YAMLStyle{})
		direct := run(c, doc, "write", "event", "--chord", dict)
		conv := run(c, doc, "write", "conv", "-c", "cmt", "--chord", dict)
		c.Eval(2)
		if infra(c, direct) || infra(c, conv) {
			return
		}
		det := map[string]any{"symbol": sym, "direct": obs(direct), "conv": obs(conv)}
		if a := abnormal(direct); a != "" {
			c.Violate("oddsymbols", i, "oddsymbols:abnormal", "crd write event "+a, det)
			return
		}
		if a := abnormal(conv); a != "" {
			c.Violate("oddsymbols", i, "oddsymbols:abnormal", "crd write conv "+a, det)
			return
		}
		if !direct.OK() || !conv.OK() {
			if direct.OK() != conv.OK() {
				c.Violate("oddsymbols", i, "oddsymbols:accept", fmt.Sprintf("a document using the user chord symbol %q: write event ok=%v, write conv ok=%v", sym, direct.OK(), conv.OK()), det)
			}
			return
		}
		again := run(c, conv.Stdout, "write", "event", "--chord", dict)
		c.Eval(1)
		if infra(c, again) {
			return
		}
		notes := func(b []byte) string {
			var l []string
			for _, ln := range strings.Split(string(b), "\n") {
				if strings.Contains(ln, "NoteOn") || strings.Contains(ln, "NoteOff") {
					l = append(l, ln)
				}
			}
			return strings.Join(l, "\n")
		}
		if !again.OK() || notes(again.Stdout) != notes(direct.Stdout) {
			c.Violate("oddsymbols", i, "oddsymbols:roundtrip", fmt.Sprintf("user chord symbol %q: what write conv prints is refused or plays other notes than the document it was made from (ok=%v): %s", sym, again.OK(), firstLineDiff([]byte(notes(direct.Stdout)), []byte(notes(again.Stdout)))), mergeMaps(det, map[string]any{"again": obs(again)}))
			return
		}
		c.Nontrivial("oddsymbol:" + sym)
	})

	c.Stream("scalars", 16, func(sh int, r *rand.Rand) { scalarShard(c, sh, r) })
}

// leadingBreak is the class of strings yaml.v3 v3.0.1 cannot emit faithfully: multi-line
// strings whose first rune is a line break or a tab (the block scalar it chooses loses the
// first line break, or is rejected by its own parser).
func leadingBreak(s string) bool {
	if !strings.Contains(s, "\n") {
		return false
	}
	r := []rune(s)[0]
	return r == '\n' || r == '\t' || r == 0x2028 || r == 0x2029 || r == 0x85
}

func metaHasLeadingBreak(m map[string]string) bool {
	for k, v := range m {
		if leadingBreak(k) || leadingBreak(v) {
			return true
		}
	}
	return false
}

func isASCII(s string) bool {
	for i := 0; i < len(s); i++ {
		if s[i] >= 0x80 {
			return false
		}
	}
	return true
}

var hostileAlphabet = []rune(":#-?*&!|>'\"%@`[]{},= \t\n\\~yYnN0123.eExé日😀  \u0085_<")

func scalarShard(c *core.Ctx, sh int, r *rand.Rand) {
	type req = map[string]any
	var reqs []req
	add := func(m req) {
		m["i"] = len(reqs)
		reqs = append(reqs, m)
	}
	switch {
	case sh == 0:
		for n := 1; n <= 64; n++ {
			for q := range theory.Qualities {
				add(req{"t": "degree", "n": n, "q": q})
			}
		}
		for _, k := range theory.AllKeySpellings() {
			add(req{"t": "key", "s": k})
		}
		for _, d := range model.Dynamics {
			add(req{"t": "dynamic", "s": d})
		}
	case sh == 1:
		nums := []uint64{1, 2, 3, 4, 5, 6, 7, 8, 9, 10, 11, 12, 13, 14, 15, 16, 17, 18, 19, 20, 1 << 32, 1 << 63, ^uint64(0), 999983}
		for _, a := range nums {
			for _, b := range nums {
				add(req{"t": "rat", "n": a, "d": b})
				add(req{"t": "value", "n": a, "d": b})
				add(req{"t": "meter", "n": a, "d": b})
			}
			add(req{"t": "bpm", "n": a})
		}
	case sh == 2:
		// every pair of the hostile alphabet as a metadata value and key
		for _, a := range hostileAlphabet {
			for _, b := range hostileAlphabet {
				s := string([]rune{a, b})
				add(req{"t": "meta", "m": map[string]string{"txt": s}})
				add(req{"t": "meta", "m": map[string]string{s: "v"}})
			}
		}
		for _, t := range model.Texts {
			add(req{"t": "meta", "m": map[string]string{"txt": t, "lic": t + t, t: "x"}})
		}
	default:
		n := c.N(1500, 25000)
		for k := 0; k < n; k++ {
			switch r.Intn(4) {
			case 0:
				add(req{"t": "rat", "n": r.Uint64() >> uint(r.Intn(64)), "d": r.Uint64() >> uint(r.Intn(64))})
			case 1:
				var b strings.Builder
				for j := 0; j < 1+r.Intn(6); j++ {
					b.WriteRune(hostileAlphabet[r.Intn(len(hostileAlphabet))])
				}
				add(req{"t": "meta", "m": map[string]string{"txt": b.String(), "k" + b.String(): b.String()}})
			default:
				p := model.RandPiece(r, model.GenOpts{MinLen: 1, MaxLen: 1, RestProb: 0.2, SettingProb: 0.5, TextProb: 0.5, KeyChanges: true, BassProb: 0.5, MaxDeg: 15})
				in := p.Inst[0]
				ir := map[string]any{"chord": in.Chord != nil, "vel": in.Velocity, "key": in.Key, "bpm": in.BPM, "meta": in.Meta}
				if in.Chord != nil {
					ir["deg_n"], ir["deg_q"], ir["symbol"] = in.Chord.Deg.N, int(in.Chord.Deg.Q), in.Chord.Symbol
					if in.Chord.Bass != nil {
						ir["has_bass"], ir["bass_n"], ir["bass_q"] = true, in.Chord.Bass.N, int(in.Chord.Bass.Q)
					}
				}
				var vs [][2]uint64
				for _, v := range in.Values {
					vs = append(vs, [2]uint64{v.Num, v.Den})
				}
				ir["values"] = vs
				if in.Meter != nil {
					ir["meter"] = [2]uint64{in.Meter.Num, in.Meter.Den}
				}
				add(req{"t": "instance", "inst": ir})
			}
		}
	}
	var buf bytes.Buffer
	for _, q := range reqs {
		b, _ := json.Marshal(q)
		buf.Write(b)
		buf.WriteByte('\n')
	}
	res, lines := runWorker(c, buf.Bytes(), 120, "scalars")
	if infra(c, res) {
		return
	}
	if a := abnormal(res); a != "" || !res.OK() {
		lc := lastCase(res)
		var which any
		if n, err := strconv.Atoi(lc); err == nil && n < len(reqs) {
			which = reqs[n]
		}
		c.Violate("scalars", sh, "scalars:worker", fmt.Sprintf("marshal/unmarshal %s at request %v", a, which), obs(res))
		return
	}
	for _, ln := range lines {
		var o struct {
			I                                     int
			Skip, YAML, Err, Before, After, Panic string
			OK                                    bool
		}
		if json.Unmarshal(ln, &o) != nil || o.I >= len(reqs) {
			continue
		}
		c.Eval(1)
		q := reqs[o.I]
		qd, _ := json.Marshal(q)
		sig := "scalar:" + short(string(qd), 120)
		if o.Panic != "" {
			c.Violate("scalars", sh, sig+":panic", fmt.Sprintf("round trip of %s panics: %s", qd, o.Panic), nil)
			continue
		}
		if o.Skip != "" {
			c.Count("scalars_skipped_invalid", 1)
			continue
		}
		if o.Err != "" || !o.OK {
			if m, ok := q["m"].(map[string]string); ok && metaHasLeadingBreak(m) {
				sig = "scalar:meta:multi-line string starting with a line break or tab"
			}
			if m, ok := q["m"].(map[string]string); ok {
				if _, has := m["<<"]; has {
					sig = "scalar:meta:key <<"
				}
			}
			if im, ok := q["inst"].(map[string]any); ok {
				if m, ok := im["meta"].(map[string]string); ok && metaHasLeadingBreak(m) {
					sig = "scalar:meta:multi-line string starting with a line break or tab"
				}
			}
			c.Violate("scalars", sh, sig+":roundtrip", fmt.Sprintf("%s does not survive printing and re-reading: yaml=%q err=%q before=%s after=%s", qd, o.YAML, o.Err, short(o.Before, 200), short(o.After, 200)), nil)
			continue
		}
		c.Seen("scalar_types", asStr(q["t"]))
		c.Nontrivial(string(qd))
	}
}
