package main

import (
	"fmt"
	"math"
	"math/big"
	"math/rand"
	"strings"

	"verif/core"
	"verif/model"
	"verif/smfdec"
)

func init() { register("C02", checkC02) }

// judgeTiming runs write and checks the C02 clauses.
func judgeTiming(c *core.Ctx, stream string, idx int, p model.Piece, f model.Flags, o writeOpts, sigOverride string) bool {
	r, out := playPiece(c, p, f, o)
	if infra(c, r) {
		return false
	}
	sig := fmt.Sprintf("%s#%d", stream, idx)
	if sigOverride != "" {
		sig = sigOverride
	}
	if a := abnormal(r); a != "" {
		c.Violate(stream, idx, sig+":abnormal", "crd write "+a, withYAML(obs(r), p))
		return false
	}
	if !r.OK() {
		c.Violate(stream, idx, sig+":refused", "crd write refuses a valid instances document", withYAML(obs(r), p))
		return false
	}
	file, derr := decodeSMF(out)
	if file == nil {
		c.Violate(stream, idx, sig+":decode", "crd write output cannot be decoded: "+derr, withYAML(obs(r), p))
		return false
	}
	if probs := timingProblems(file, p.Effective(f)); len(probs) > 0 {
		tsig := sig + ":timing"
		if sigOverride != "" {
			tsig += ":" + probs[0]
		}
		c.Violate(stream, idx, tsig, probs[0], withYAML(pieceDesc(p, f), p))
		return true
	}
	c.Count("note_events_checked", countNotes(file))
	// non-triviality
	rest, multi, odd := false, false, false
	var shape []string
	for _, in := range p.Inst {
		if in.Chord == nil {
			rest = true
		}
		if len(in.Values) >= 2 {
			multi = true
		}
		for _, v := range in.Values {
			if uint64(file.Division)%v.Den != 0 {
				odd = true
			}
		}
		k := "c"
		if in.Chord == nil {
			k = "r"
		}
		shape = append(shape, k+model.ExactTicks(1, in.Values).RatString())
	}
	if rest && multi && odd {
		c.Nontrivial(strings.Join(shape, " "))
	}
	return true
}

func countNotes(f *smfdec.File) int {
	n := 0
	for _, t := range f.Tracks {
		for _, e := range t.Events {
			if e.Kind == smfdec.NoteOn || e.Kind == smfdec.NoteOff {
				n++
			}
		}
	}
	return n
}

func checkC02(c *core.Ctx) {
	c.Rule("random sequences of chords and rests (rests leading, inner, consecutive up to 5, trailing; 1..4 fractions per instance with numerators 1..64 and denominators incl. primes and non-divisors of the resolution, sometimes 5..9 fractions whose denominators multiply beyond 64 bits; text, lyric and marker metadata anywhere; repeated chords; settings on rests; 1..4 tracks), " +
		"a deterministic list of exactly-halfway values, a list of adversarial near-halfway values and single instances just below 2^28 ticks (2^28-1 +0, +1/4, +0.49, ... in four positions); every note-on must sit at its instance start and every note-off at start+round(T*sum) computed in exact rationals (either neighbour at exact halves, tracked as a set), nothing may sound in a rest, releases precede strikes of the same key; " +
		"non-trivial = piece with a rest, an instance with >= 2 fractions and a denominator not dividing T; distinct by the sequence of (kind, exact duration)")
	c.Assume("math/big exact rationals", "smfdec", "T is read from the file header", "instances of 0..2 ticks are generated for single-track files only (chords are told apart by runs of note-ons there)")

	c.Stream("random", c.N(5000, 120000), func(i int, r *rand.Rand) {
		n := 1 + r.Intn(c.N(14, 40))
		var p model.Piece
		restRun := 0
		// instances of (almost) no duration only in single-track cases: with several tracks the notes of a
		// zero-tick chord cannot be told from its neighbours'
		multi := r.Intn(4) == 0
		tiny := !multi
		var prev *model.ChordSpec
		for j := 0; j < n; j++ {
			in := model.Instance{}
			isRest := r.Intn(3) == 0
			if j == 0 && r.Intn(3) == 0 {
				isRest = true
			}
			if restRun > 0 && restRun < 5 && r.Intn(2) == 0 {
				isRest = true
			}
			if !isRest {
				restRun = 0
				if prev != nil && r.Intn(3) == 0 {
					cp := *prev
					in.Chord = &cp // the same pitches back to back
				} else {
					ch := &model.ChordSpec{Deg: model.RandInterval(r, 9), Symbol: model.RandSymbol(r)}
					if r.Intn(3) == 0 {
						b := model.RandInterval(r, 8)
						ch.Bass = &b
					}
					in.Chord = ch
				}
				prev = in.Chord
			} else {
				restRun++
			}
			if tiny && r.Intn(10) == 0 {
				in.Values = append([]model.Frac(nil), model.TinyValues[r.Intn(len(model.TinyValues))]...)
			} else if r.Intn(6) == 0 {
				in.Values = append([]model.Frac(nil), model.HalfwayValues[r.Intn(len(model.HalfwayValues))]...)
			} else if r.Intn(12) == 0 {
				in.Values = model.ManyFractions(r)
			} else {
				in.Values = model.RandValues(r)
			}
			if r.Intn(8) == 0 {
				in.BPM = model.RandBPM(r)
			}
			if r.Intn(10) == 0 {
				in.Key = model.RandKey(r)
			}
			if r.Intn(6) == 0 {
				// one or two of the three text kinds (each is written by its own code path)
				in.Meta = map[string]string{}
				for _, k := range []string{"txt", "lic", "mrk"} {
					if r.Intn(2) == 0 {
						in.Meta[k] = model.RandText(r)
					}
				}
			}
			p.Inst = append(p.Inst, in)
		}
		if r.Intn(3) == 0 { // trailing rest(s)
			for k := 0; k < 1+r.Intn(2); k++ {
				p.Inst = append(p.Inst, model.Instance{Values: model.RandValues(r)})
			}
		}
		if !p.Effective(model.Flags{}).AllInRange() || !p.TotalBelow(960, 1<<28) {
			c.Count("skipped", 1)
			return
		}
		var f model.Flags
		if multi {
			f.Track = 1 + r.Intn(4)
		}
		if judgeTiming(c, "random", i, p, f, randWriteOpts(r), "") && c.WantSample() {
			c.Sample(pieceDesc(p, f))
		}
	})

	// exactly halfway values in every position
	chord := func(r *rand.Rand) *model.ChordSpec {
		return &model.ChordSpec{Deg: model.SimpleInterval(r, 7), Symbol: "m7"}
	}
	c.Stream("halfway", len(model.HalfwayValues)*6, func(i int, r *rand.Rand) {
		hv := model.HalfwayValues[i%len(model.HalfwayValues)]
		var p model.Piece
		switch i / len(model.HalfwayValues) {
		case 0:
			p.Inst = []model.Instance{{Chord: chord(r), Values: hv}}
		case 1:
			p.Inst = []model.Instance{{Values: hv}, {Chord: chord(r), Values: one()}}
		case 2:
			p.Inst = []model.Instance{{Chord: chord(r), Values: hv}, {Chord: chord(r), Values: hv}, {Chord: chord(r), Values: one()}}
		case 3:
			p.Inst = []model.Instance{{Chord: chord(r), Values: one()}, {Values: hv}, {Values: hv}, {Chord: chord(r), Values: hv}}
		case 4:
			p.Inst = []model.Instance{{Chord: chord(r), Values: hv}, {Values: hv}}
		default:
			p.Inst = []model.Instance{{Values: hv}, {Values: hv}, {Values: hv}, {Chord: chord(r), Values: hv}, {Values: one()}}
		}
		judgeTiming(c, "halfway", i, p, model.Flags{}, writeOpts{}, "")
		c.Count("halfway_cases", 1)
	})

	// the longest pieces the property covers: one instance whose exact length lies just below 2^28 ticks
	// (it rounds to at most 2^28-1, the largest delta a file can carry), everything else 0 ticks long
	type lim struct{ num, den uint64 } // exact ticks = num/den
	lims := []lim{{1<<28 - 1, 1}, {(1<<28-1)*4 + 1, 4}, {(1<<28-1)*100 + 49, 100}, {(1<<28-1)*4 - 1, 4}, {1<<28 - 2, 1}, {(1<<28-2)*3 + 1, 3}, {(1<<28-1)*1000 + 499, 1000}, {1 << 27, 1}}
	c.Stream("limit", len(lims)*4, func(i int, r *rand.Rand) {
		l := lims[i%len(lims)]
		huge := []model.Frac{{Num: l.num, Den: l.den * 960}}
		tiny := []model.Frac{{Num: 1, Den: 1000000}}
		var p model.Piece
		switch i / len(lims) {
		case 0:
			p.Inst = []model.Instance{{Chord: chord(r), Values: huge}}
		case 1:
			p.Inst = []model.Instance{{Values: huge}, {Chord: chord(r), Values: tiny}}
		case 2:
			p.Inst = []model.Instance{{Chord: chord(r), Values: tiny}, {Values: huge}}
		default:
			p.Inst = []model.Instance{{Values: tiny}, {Chord: chord(r), Values: huge}, {Values: tiny}}
		}
		if !p.TotalBelow(960, 1<<28) {
			c.Inconclusive("harness: limit case not below 2^28")
			return
		}
		judgeTiming(c, "limit", i, p, model.Flags{}, writeOpts{}, "")
		c.Count("limit_cases", 1)
	})

	// value lists that print to the same characters when their fractions are run together ([1, 11/2] and
	// [11, 1/2]; [1/2, 13/4] and [1/21, 3/4]) inside one document: each instance has its own length
	collide := [][2][]model.Frac{
		{{{Num: 1, Den: 1}, {Num: 11, Den: 2}}, {{Num: 11, Den: 1}, {Num: 1, Den: 2}}},
		{{{Num: 1, Den: 2}, {Num: 13, Den: 4}}, {{Num: 1, Den: 21}, {Num: 3, Den: 4}}},
		{{{Num: 2, Den: 1}, {Num: 1, Den: 3}}, {{Num: 21, Den: 1}, {Num: 1, Den: 3}, {Num: 1, Den: 1}}},
		{{{Num: 1, Den: 1}, {Num: 2, Den: 1}}, {{Num: 12, Den: 1}, {Num: 1, Den: 1}}},
		{{{Num: 3, Den: 4}, {Num: 1, Den: 2}}, {{Num: 3, Den: 41}, {Num: 1, Den: 2}, {Num: 2, Den: 1}}},
		{{{Num: 1, Den: 12}, {Num: 3, Den: 1}}, {{Num: 1, Den: 1}, {Num: 23, Den: 1}}},
	}
	c.Stream("collide", len(collide)*4, func(i int, r *rand.Rand) {
		pr := collide[i%len(collide)]
		a, b := pr[0], pr[1]
		if (i/len(collide))%2 == 1 {
			a, b = b, a
		}
		var p model.Piece
		if i/len(collide) < 2 {
			p.Inst = []model.Instance{{Chord: chord(r), Values: a}, {Chord: chord(r), Values: b}, {Chord: chord(r), Values: a}, {Values: b}, {Chord: chord(r), Values: one()}}
		} else {
			p.Inst = []model.Instance{{Values: a}, {Values: b}, {Chord: chord(r), Values: b}, {Chord: chord(r), Values: a}}
		}
		judgeTiming(c, "collide", i, p, model.Flags{Track: 1 + i%2*2}, writeOpts{}, "")
	})

	// a document of more than 16 MiB (4200 instances with a lyric of 4 KiB each): every instance is played
	c.Stream("hugedoc", 1, func(i int, r *rand.Rand) {
		var p model.Piece
		lyric := strings.Repeat("la ", 1365)
		for k := 0; k < 4200; k++ {
			in := model.Instance{Values: []model.Frac{{Num: uint64(1 + k%7), Den: uint64(1 + k%5)}}, Meta: map[string]string{"lic": lyric}}
			if k%6 != 5 {
				in.Chord = chord(r)
			}
			p.Inst = append(p.Inst, in)
		}
		judgeTiming(c, "hugedoc", i, p, model.Flags{}, writeOpts{outFile: true}, "")
		c.Extra("hugedoc_bytes", len(p.YAML(model.YAMLStyle{})))
	})

	// one very long line (a lyric of 70..200 KB on one line) in the middle of a short piece, with the line ends of
	// either platform and in block or flow style: the instances behind it are played like the ones before
	c.Stream("longline", 8, func(i int, r *rand.Rand) {
		var p model.Piece
		for k := 0; k < 8; k++ {
			in := model.Instance{Chord: chord(r), Values: []model.Frac{{Num: uint64(1 + k%3), Den: uint64(1 + k%2)}}}
			if k == 2+i%3 {
				in.Meta = map[string]string{[]string{"lic", "txt"}[i%2]: strings.Repeat("la ", 24000+20000*(i%3))}
			}
			if k == 6 {
				in.Chord = nil
			}
			p.Inst = append(p.Inst, in)
		}
		o := writeOpts{encoding: []string{"crlf", ""}[i/4%2], style: model.YAMLStyle{FlowValues: i%2 == 1}, viaFile: i%4 >= 2}
		judgeTiming(c, "longline", i, p, model.Flags{Track: 1 + i%3}, o, "")
	})

	// ordinary values written with huge numerals (n*k)/(d*k), the larger numeral just below 2^54, 2^60, 2^63, 2^64
	type hn struct{ n, d uint64 }
	hbases := []hn{{3, 2}, {1, 1}, {1, 2}, {5, 4}, {7, 8}, {2, 3}, {1, 64}, {9, 1}}
	hbits := []uint{54, 60, 63, 64}
	c.Stream("hugenumerals", len(hbases)*len(hbits)*2, func(i int, r *rand.Rand) {
		b := hbases[i%len(hbases)]
		bits := hbits[(i/len(hbases))%len(hbits)]
		top := uint64(1)<<(bits-1) - 1 + uint64(1)<<(bits-1) // 2^bits - 1 without overflow
		k := top/max(b.n, b.d) - uint64(r.Intn(1000))
		big1 := []model.Frac{{Num: b.n * k, Den: b.d * k}}
		var p model.Piece
		if i >= len(hbases)*len(hbits) {
			p.Inst = []model.Instance{{Values: big1}, {Chord: chord(r), Values: append(append([]model.Frac{}, big1...), model.Frac{Num: 1, Den: 4})}, {Chord: chord(r), Values: one()}}
		} else {
			p.Inst = []model.Instance{{Chord: chord(r), Values: big1}, {Values: big1}, {Chord: chord(r), Values: big1}}
		}
		judgeTiming(c, "hugenumerals", i, p, model.Flags{}, writeOpts{}, "")
		c.Count("hugenumeral_cases", 1)
	})

	// machine-word traps: values over denominators of every bit length from 30 to 64 (powers of two and odd numbers),
	// with numerators chosen so that the instance lasts between a fraction of a tick and some thousand ticks - as one
	// fraction or split over the same denominator. Any fast path through float64, int64 or uint64 arithmetic has its
	// wrap-around or its 53-bit rounding somewhere in this family; the expectation is exact (math/big).
	c.Stream("wordsizes", c.N(4000, 60000), func(i int, r *rand.Rand) {
		v, bits := wordSizeValues(r, i)
		var p model.Piece
		switch r.Intn(3) {
		case 0:
			p.Inst = []model.Instance{{Chord: chord(r), Values: v}, {Chord: chord(r), Values: one()}}
		case 1:
			p.Inst = []model.Instance{{Values: v}, {Chord: chord(r), Values: one(), Meta: map[string]string{"txt": "after"}}}
		default:
			p.Inst = []model.Instance{{Chord: chord(r), Values: one()}, {Chord: chord(r), Values: v}, {Values: v}, {Chord: chord(r), Values: one(), BPM: 90}}
		}
		tracks := 1 + r.Intn(3)
		if shortValues(v) {
			// a chord of no length (whatever the resolution of the file) and the next chord strike at the same tick:
			// only the order of the events of a single track tells them apart
			tracks = 1
		}
		judgeTiming(c, "wordsizes", i, p, model.Flags{Track: tracks}, writeOpts{}, "")
		c.Seen("denominator_bits", fmt.Sprint(bits))
	})

	// sums of ordinary fractions whose exact tick count misses k+1/2 by less than 1e-12 (found by searching sums of
	// three-digit denominators): float64 summation lands on or past the half, exact arithmetic does not
	nearSums := [][]model.Frac{
		{{Num: 35, Den: 179}, {Num: 228, Den: 229}, {Num: 255, Den: 313}, {Num: 182, Den: 347}, {Num: 151, Den: 349}},
		{{Num: 678, Den: 1583}, {Num: 454, Den: 1669}, {Num: 591, Den: 1913}, {Num: 1905, Den: 1993}},
		{{Num: 51, Den: 281}, {Num: 84, Den: 181}, {Num: 198, Den: 467}, {Num: 35, Den: 263}, {Num: 330, Den: 881}, {Num: 432, Den: 811}},
		{{Num: 20010000000000000, Den: 19200000000000001}},
		{{Num: 14221632512832, Den: 67108879}},
		{{Num: 2, Den: 3}, {Num: 1, Den: 1920}},
		{{Num: 1, Den: 2}, {Num: 1, Den: 3}, {Num: 1, Den: 128}},
		// dyadic values: exact in float64, but 960 times them lands on the half tick the true count misses by 2^-46
		{{Num: 4487180253729041, Den: 4503599627370496}},
		{{Num: 4243235273913139, Den: 4503599627370496}},
		{{Num: 1, Den: 2}, {Num: 775228998357265, Den: 2251799813685248}},
	}
	c.Stream("nearhalfsums", len(nearSums)*3, func(i int, r *rand.Rand) {
		v := nearSums[i%len(nearSums)]
		var p model.Piece
		switch i / len(nearSums) {
		case 0:
			p.Inst = []model.Instance{{Chord: chord(r), Values: v}, {Chord: chord(r), Values: one()}}
		case 1:
			p.Inst = []model.Instance{{Values: v}, {Chord: chord(r), Values: one()}}
		default:
			p.Inst = []model.Instance{{Chord: chord(r), Values: one()}, {Values: v}, {Chord: chord(r), Values: v}, {Values: one()}}
		}
		judgeTiming(c, "nearhalfsums", i, p, model.Flags{Track: 1 + i%3}, writeOpts{}, "")
		c.Extra("nearhalfsums_example_exact_ticks", model.ExactTicks(960, nearSums[0]).FloatString(16))
		c.Count("nearhalf_sum_cases", 1)
	})

	// adversarial near-halfway values: exact tick count within 1e-9 of k+1/2 but not equal
	near := nearHalfValues()
	c.Stream("nearhalf", len(near), func(i int, r *rand.Rand) {
		v := near[i]
		p := model.Piece{Inst: []model.Instance{{Chord: chord(r), Values: []model.Frac{v}}, {Chord: chord(r), Values: one()}}}
		x := model.ExactTicks(960, []model.Frac{v})
		judgeTiming(c, "nearhalf", i, p, model.Flags{}, writeOpts{}, fmt.Sprintf("nearhalf:%s", v))
		c.Extra("nearhalf_example_exact_ticks", x.FloatString(20))
		c.Count("nearhalf_cases", 1)
	})
}

// shortValues tells whether the values sum up to less than an eighth of a beat: at a coarse resolution such an
// instance may have no ticks at all.
func shortValues(v []model.Frac) bool {
	sum := new(big.Rat)
	for _, f := range v {
		sum.Add(sum, new(big.Rat).SetFrac(new(big.Int).SetUint64(f.Num), new(big.Int).SetUint64(f.Den)))
	}
	return sum.Cmp(big.NewRat(1, 8)) < 0
}

// wordSizeValues draws the durations of one instance from the family described at the `wordsizes` stream of C02.
func wordSizeValues(r *rand.Rand, i int) ([]model.Frac, uint) {
	// two thirds of the cases around the word sizes (48..64 bits), the rest from 30 bits on
	bits := uint(48 + i%17)
	if i%3 == 2 {
		bits = uint(30 + (i/3)%18)
	}
	var den uint64
	switch r.Intn(3) {
	case 0:
		den = uint64(1) << (bits - 1) // a power of two: exactly representable in float64
		if bits == 64 {
			den = 1 << 63
		}
	case 1:
		den = uint64(1)<<(bits-1) | uint64(r.Int63())&(uint64(1)<<(bits-1)-1) | 1 // odd, exactly that many bits
	default:
		den = (uint64(1)<<(bits-1) | uint64(r.Int63())&(uint64(1)<<(bits-1)-1)) &^ 0x3f // a multiple of 64: shares factors with 960
		if den == 0 {
			den = 1 << (bits - 1)
		}
	}
	// target length in ticks, log-uniform over 0.3 .. 6000, moved next to a half tick in a third of the cases
	t := 0.3 * math.Pow(20000, r.Float64())
	if r.Intn(2) == 0 {
		t = 0.05 + 3*r.Float64() // a few ticks at most: the remainder is nearly the whole numerator
		if r.Intn(2) == 0 {
			t = 0.3 + 0.9*r.Float64() // less than a tick and a bit: zero or one
		}
	}
	if r.Intn(3) == 0 {
		t = math.Floor(t) + 0.5
	}
	if i%4 == 3 {
		// directed at the word boundaries: an odd denominator just inside 32, 33, 53, 54, 63 or 64 bits and a
		// length around one tick, so that the remainder of the division is nearly as large as the denominator
		bits = []uint{32, 33, 53, 54, 63, 64}[(i/4)%6]
		den = uint64(1)<<(bits-1) | uint64(r.Int63())&(uint64(1)<<(bits-1)-1) | 1
		t = 0.4 + 0.7*r.Float64()
	}
	nf := new(big.Float).Quo(new(big.Float).Mul(new(big.Float).SetUint64(den), big.NewFloat(t)), big.NewFloat(960))
	num, _ := nf.Uint64()
	num += uint64(r.Intn(3))
	if num == 0 {
		num = 1
	}
	v := []model.Frac{{Num: num, Den: den}}
	if r.Intn(3) == 0 && num > 2 {
		a := 1 + uint64(r.Int63n(int64(min(num-1, 1<<62))))
		v = []model.Frac{{Num: a, Den: den}, {Num: num - a, Den: den}}
	}
	if r.Intn(4) == 0 {
		v = append([]model.Frac{{Num: uint64(1 + r.Intn(4)), Den: 1}}, v...)
	}
	return v, bits
}

// nearHalfValues builds fractions num/den with 960*num/den = k + 1/2 -/+ eps for tiny eps.
func nearHalfValues() []model.Frac {
	var out []model.Frac
	// den = 1920 * 10^15: 960*num/den = num / (2*10^15); choose num = (2k+1)*10^15 -/+ 1
	p15 := uint64(1000000000000000)
	for _, k := range []uint64{100, 7, 480, 1} {
		for _, d := range []int64{-1, 1} {
			num := (2*k+1)*p15 + uint64(d)
			out = append(out, model.Frac{Num: num, Den: 1920 * p15})
		}
	}
	// smaller operands that float64 still gets right (controls): eps = 1/(2*10^6)
	p6 := uint64(1000000)
	for _, k := range []uint64{3, 250} {
		for _, d := range []int64{-1, 1} {
			out = append(out, model.Frac{Num: (2*k+1)*p6 + uint64(d), Den: 1920 * p6})
		}
	}
	_ = big.NewInt
	return out
}
