package main

import (
	"fmt"
	"math/rand"
	"strings"

	"verif/core"
	"verif/smfdec"
	"verif/theory"
)

func init() { register("C17", checkC17) }

var (
	majTriads   = [7][]int{{0, 4, 7}, {0, 3, 7}, {0, 3, 7}, {0, 4, 7}, {0, 4, 7}, {0, 3, 7}, {0, 3, 6}}
	majSevenths = [7][]int{{0, 4, 7, 11}, {0, 3, 7, 10}, {0, 3, 7, 10}, {0, 4, 7, 11}, {0, 4, 7, 10}, {0, 3, 7, 10}, {0, 3, 6, 10}}
	minTriads   = [7][]int{{0, 3, 7}, {0, 3, 6}, {0, 4, 7}, {0, 3, 7}, {0, 3, 7}, {0, 4, 7}, {0, 4, 7}}
	minSevenths = [7][]int{{0, 3, 7, 10}, {0, 3, 6, 10}, {0, 4, 7, 11}, {0, 3, 7, 10}, {0, 3, 7, 10}, {0, 4, 7, 11}, {0, 4, 7, 10}}
)

// playChordText pipes a chord text through text conv syllable --key K | write --key K
// and returns the decoded file (nil + message on failure).
func playChordText(c *core.Ctx, key, text string) (*smfdec.File, string, map[string]any) {
	r1 := run(c, []byte(text), "text", "conv", "syllable", "--key", key)
	c.Eval(1)
	if infra(c, r1) {
		return nil, "", nil
	}
	if a := abnormal(r1); a != "" || !r1.OK() {
		return nil, "text conv syllable --key " + key + " refuses it " + a, obs(r1)
	}
	r2 := run(c, r1.Stdout, "write", "--key", key)
	c.Eval(1)
	if infra(c, r2) {
		return nil, "", nil
	}
	if a := abnormal(r2); a != "" || !r2.OK() {
		return nil, "write --key " + key + " refuses the converted chord " + a, obs(r2)
	}
	f, derr := decodeSMF(r2.Stdout)
	if f == nil {
		return nil, "write output is not a MIDI file: " + derr, obs(r2)
	}
	return f, "", nil
}

func checkC17(c *core.Ctx) {
	c.Rule("exhaustive: 28 supported keys x the 7 triads + 7 seventh chords printed by `info key describe`, each compared with the major / natural-minor harmonisation and then piped alone (and all 14 together, twice in a row, with the exact pitch classes of every onset checked) through `text conv syllable --key K | write --key K`; " +
		"sounded pitch classes must lie in the key's scale, the root must be the scale note; non-trivial = a printed chord that was parsed, matched against the harmonisation table and played; distinct by (key, position, kind)")
	c.Assume("theory.Key.Scale", "conventional harmonisation tables from the property statement", "theory.ChordTable for reading symbols", "smfdec")
	c.Exhaustive(true)
	keys := theory.Supported()
	c.Stream("key", len(keys), func(i int, _ *rand.Rand) {
		k := keys[i]
		ks := k.String()
		r := run(c, nil, "info", "key", "describe", "--key", ks)
		c.Eval(1)
		if infra(c, r) {
			return
		}
		if a := abnormal(r); a != "" || !r.OK() {
			c.Violate("key", i, "describe:"+ks, "info key describe --key "+ks+" fails "+a, obs(r))
			return
		}
		m, err := yamlMap(r.Stdout)
		if err != nil {
			c.Violate("key", i, "describe:"+ks+":yaml", "not YAML: "+err.Error(), obs(r))
			return
		}
		d, _ := m["diatonic"].(map[string]any)
		scale := k.Scale()
		scalePC := map[int]bool{}
		for _, n := range scale {
			scalePC[n.PC()] = true
		}
		var all []string
		for _, kind := range []string{"triads", "sevenths"} {
			list := strList(d[kind])
			if len(list) != 7 {
				c.Violate("key", i, fmt.Sprintf("count:%s:%s", ks, kind), fmt.Sprintf("%s: %d %s printed", ks, len(list), kind), obs(r))
				continue
			}
			var table [7][]int
			switch {
			case kind == "triads" && !k.Minor:
				table = majTriads
			case kind == "triads":
				table = minTriads
			case !k.Minor:
				table = majSevenths
			default:
				table = minSevenths
			}
			for j, s := range list {
				sig := fmt.Sprintf("%s:%s:%d", ks, kind, j+1)
				note := scale[j].String()
				if !strings.HasPrefix(s, note) {
					c.Violate("key", i, sig+":note", fmt.Sprintf("%s %s[%d] = %q is not written on scale note %s", ks, kind, j+1, s, note), nil)
					continue
				}
				sym := strings.TrimPrefix(strings.TrimPrefix(s, note), "_")
				semis, ok := theory.ChordSemis(sym)
				if !ok {
					c.Violate("key", i, sig+":symbol", fmt.Sprintf("%s %s[%d] = %q: symbol %q is not a dictionary symbol", ks, kind, j+1, s, sym), nil)
					continue
				}
				if !eqInts(semis, table[j]) {
					c.Violate("key", i, sig+":quality", fmt.Sprintf("%s %s[%d] = %q has intervals %v, the harmonisation wants %v", ks, kind, j+1, s, semis, table[j]), nil)
					continue
				}
				// play it alone
				f, why, det := playChordText(c, ks, s+"[1]")
				if f == nil {
					if why != "" {
						c.Violate("key", i, sig+":play", fmt.Sprintf("%s: printed chord %q is not playable: %s", ks, s, why), det)
					}
					continue
				}
				var pcs []int
				lowest := 999
				for _, e := range mergedEvents(f) {
					if e.Kind == smfdec.NoteOn {
						pcs = append(pcs, e.Key()%12)
						if e.Key() < lowest {
							lowest = e.Key()
						}
						if !scalePC[e.Key()%12] {
							c.Violate("key", i, sig+":outside", fmt.Sprintf("%s: chord %q sounds key %d (pitch class %d) outside the scale", ks, s, e.Key(), e.Key()%12), nil)
						}
					}
				}
				if len(pcs) != len(table[j])+1 {
					c.Violate("key", i, sig+":notes", fmt.Sprintf("%s: chord %q sounds %d notes, expected %d", ks, s, len(pcs), len(table[j])+1), nil)
					continue
				}
				if lowest%12 != scale[j].PC() {
					c.Violate("key", i, sig+":root", fmt.Sprintf("%s: chord %q has lowest note %d, root should be %s", ks, s, lowest, scale[j]), nil)
					continue
				}
				wantPC := map[int]bool{}
				for _, x := range table[j] {
					wantPC[(scale[j].PC()+x)%12] = true
				}
				for _, p := range pcs {
					if !wantPC[p] {
						c.Violate("key", i, sig+":pcs", fmt.Sprintf("%s: chord %q sounds pitch class %d which is not a chord tone", ks, s, p), nil)
					}
				}
				c.Nontrivial(sig)
				all = append(all, s+"[1]")
				if j == 4 && c.WantSample() {
					c.Sample(map[string]any{"key": ks, "kind": kind, "printed": s, "sounded_pitch_classes": pcs})
				}
			}
		}
		if len(all) == 14 {
			// twice in a row: every chord is resolved again after its siblings were
			f, why, det := playChordText(c, ks, strings.Join(all, " ")+" "+strings.Join(all, " "))
			if f == nil {
				if why != "" {
					c.Violate("key", i, "all:"+ks, fmt.Sprintf("%s: the 14 printed chords in one text are not playable: %s", ks, why), det)
				}
				return
			}
			n := 0
			for _, e := range mergedEvents(f) {
				if e.Kind == smfdec.NoteOn {
					n++
					if !scalePC[e.Key()%12] {
						c.Violate("key", i, "all:"+ks+":outside", fmt.Sprintf("%s: progression of all diatonic chords sounds key %d outside the scale", ks, e.Key()), nil)
					}
				}
			}
			if n != 2*(7*4+7*5) {
				c.Violate("key", i, "all:"+ks+":count", fmt.Sprintf("%s: progression of all diatonic chords sounds %d notes, expected 126", ks, n), nil)
			}
			// behind a count-in rest (the piece does not open with a chord), rests in between: alone and all together
			texts := []string{"R[1] " + strings.Join(all[:7], " R[1/2] ") + " R[2] " + strings.Join(all[7:], " ") + " R[1]"}
			for _, ch := range all {
				texts = append(texts, "R[2] R[1] "+ch)
			}
			for ti, txt := range texts {
				f, why, det := playChordText(c, ks, txt)
				if f == nil {
					if why != "" {
						c.Violate("key", i, "countin:"+ks, fmt.Sprintf("%s: %q is not playable: %s", ks, txt, why), det)
					}
					return
				}
				n := 0
				for _, e := range mergedEvents(f) {
					if e.Kind == smfdec.NoteOn {
						n++
						if !scalePC[e.Key()%12] {
							c.Violate("key", i, fmt.Sprintf("countin:%s:outside:%d", ks, min(ti, 1)), fmt.Sprintf("%s: %q (diatonic chords behind a count-in rest) sounds key %d outside the scale", ks, txt, e.Key()), nil)
							return
						}
					}
				}
				if n == 0 {
					c.Violate("key", i, "countin:"+ks+":silent", fmt.Sprintf("%s: %q sounds nothing", ks, txt), nil)
					return
				}
			}
			c.Nontrivial("countin:" + ks)
		}
	})
}
