package main

import (
	"fmt"
	"math/rand"
	"strings"

	"verif/core"
	"verif/model"
	"verif/runner"
	"verif/smfdec"
	"verif/theory"
)

func init() { register("C13", checkC13) }

// scaleProblems compares a reported scale (key, notes, flat, sharp) with theory.
func scaleProblems(keyStr string, notes []string, flat, sharp int) []string {
	var probs []string
	k, err := theory.ParseKey(keyStr)
	if err != nil {
		return []string{fmt.Sprintf("reported key %q is not a key spelling", keyStr)}
	}
	want := k.Scale()
	if len(notes) != 7 {
		return []string{fmt.Sprintf("%d notes reported", len(notes))}
	}
	seen := map[byte]bool{}
	var parsed [7]theory.Note
	for i, s := range notes {
		n, err := theory.ParseNote(s)
		if err != nil {
			probs = append(probs, fmt.Sprintf("note %q unreadable", s))
			return probs
		}
		parsed[i] = n
		if seen[n.Letter] {
			probs = append(probs, fmt.Sprintf("letter %c used twice", n.Letter))
		}
		seen[n.Letter] = true
		if n != want[i] {
			probs = append(probs, fmt.Sprintf("note %d is %s, expected %s", i+1, s, want[i]))
		}
	}
	if parsed[0] != k.Tonic {
		probs = append(probs, fmt.Sprintf("scale starts on %s, not on the tonic", notes[0]))
	}
	steps := k.Steps()
	for i := 0; i < 7; i++ {
		d := ((parsed[(i+1)%7].Pitch()-parsed[i].Pitch())%12 + 12) % 12
		if d != steps[i] {
			probs = append(probs, fmt.Sprintf("step %d->%d is %d semitones, pattern says %d", i+1, (i+1)%7+1, d, steps[i]))
		}
	}
	sig := k.Signature()
	ws, wf := 0, 0
	if sig > 0 {
		ws = sig
	} else {
		wf = -sig
	}
	if sharp != ws || flat != wf {
		probs = append(probs, fmt.Sprintf("signature reported sharp=%d flat=%d, conventional sharp=%d flat=%d", sharp, flat, ws, wf))
	}
	// altered notes are the first n of FCGDAEB / BEADGCF
	order := "FCGDAEB"
	for i := 0; i < 7; i++ {
		l := order[i]
		wantAcc := 0
		if sig > 0 && i < sig {
			wantAcc = 1
		}
		if sig < 0 && 6-i < -sig {
			wantAcc = -1
		}
		for _, n := range parsed {
			if n.Letter == l && n.Acc != wantAcc {
				probs = append(probs, fmt.Sprintf("letter %c carries accidental %d, signature says %d", l, n.Acc, wantAcc))
			}
		}
	}
	return probs
}

func checkC13(c *core.Ctx) {
	c.Rule("exhaustive: `info key describe --key K` for all 42 spellings [A-G][#b]?m?, `info key list`, and the key-signature bytes of `write --key K`; " +
		"non-trivial = supported key with a non-empty signature whose scale, step pattern and signature were compared with the computed ones; distinct by key")
	c.Assume("theory.Key.Signature/Scale (computed from the circle of fifths, self-tested against the step patterns)", "gopkg.in/yaml.v3 reads crd's YAML output", "smfdec reads the key-signature event")
	c.Exhaustive(true)
	spell := theory.AllKeySpellings()
	type rep struct {
		notes       []string
		flat, sharp int
		ok          bool
	}
	reports := make([]rep, len(spell))
	c.Stream("describe", len(spell), func(i int, _ *rand.Rand) {
		ks := spell[i]
		r := run(c, nil, "info", "key", "describe", "--key", ks)
		c.Eval(1)
		if infra(c, r) {
			return
		}
		if a := abnormal(r); a != "" {
			c.Violate("describe", i, "describe:"+ks+":abnormal", fmt.Sprintf("info key describe --key %s %s", ks, a), obs(r))
			return
		}
		supported := theory.IsSupported(ks)
		answered := r.OK() && len(strings.TrimSpace(string(r.Stdout))) > 0
		if supported && !answered {
			c.Violate("describe", i, "describe:"+ks+":refused", fmt.Sprintf("supported key %s is refused by info key describe", ks), obs(r))
			return
		}
		if !answered {
			c.Count("unsupported_refused", 1)
			return
		}
		m, err := yamlMap(r.Stdout)
		if err != nil {
			c.Violate("describe", i, "describe:"+ks+":yaml", "info key describe output is not YAML: "+err.Error(), obs(r))
			return
		}
		sc, _ := m["scale"].(map[string]any)
		if sc == nil {
			c.Violate("describe", i, "describe:"+ks+":noscale", "info key describe output has no scale", obs(r))
			return
		}
		flat, _ := asInt(sc["flat"])
		sharp, _ := asInt(sc["sharp"])
		notes := strList(sc["notes"])
		if !supported {
			k, _ := theory.ParseKey(ks)
			if s := k.Signature(); s > 7 || s < -7 {
				c.Violate("describe", i, "describe:"+ks+":answered", fmt.Sprintf("key %s has no scale with single accidentals (signature %d) but is answered with one", ks, s), obs(r))
				return
			}
			c.Count("extra_keys_answered", 1)
		}
		if asStr(sc["key"]) != ks {
			c.Violate("describe", i, "describe:"+ks+":keyname", fmt.Sprintf("asked for %s, described %s", ks, asStr(sc["key"])), obs(r))
			return
		}
		if probs := scaleProblems(ks, notes, flat, sharp); len(probs) > 0 {
			c.Violate("describe", i, "describe:"+ks+":scale", fmt.Sprintf("scale of %s is wrong: %s", ks, strings.Join(probs, "; ")), obs(r))
			return
		}
		reports[i] = rep{notes, flat, sharp, true}
		if supported {
			c.Seen("keys_verified", ks)
			if flat+sharp > 0 {
				c.Nontrivial("describe:" + ks)
			}
		}
		if c.WantSample() {
			c.Sample(map[string]any{"cmd": "info key describe --key " + ks, "notes": notes, "flat": flat, "sharp": sharp})
		}
	})

	// the spellings without a scale are also refused where note names are converted (the converter
	// needs the scale): by flag, on a chord and on a rest
	c.Stream("refuse", len(spell)*3, func(i int, _ *rand.Rand) {
		ks := spell[i%len(spell)]
		k, err := theory.ParseKey(ks)
		if err != nil || theory.IsSupported(ks) || (k.Signature() >= -7 && k.Signature() <= 7) {
			return
		}
		var res *runner.Result
		var how string
		switch i / len(spell) {
		case 0:
			how = "--key " + ks
			res = run(c, []byte("C[1]"), "text", "conv", "syllable", "--key", ks)
		case 1:
			how = "C[1]{key=" + ks + "}"
			res = run(c, []byte(how), "text", "conv", "syllable")
		default:
			how = "R[1]{key=" + ks + "} C[1]"
			res = run(c, []byte(how), "text", "conv", "syllable")
		}
		c.Eval(1)
		if infra(c, res) {
			return
		}
		if a := abnormal(res); a != "" {
			c.Violate("refuse", i, "refuse:"+ks+":abnormal", "text conv syllable "+a, obs(res))
			return
		}
		if res.OK() {
			c.Violate("refuse", i, fmt.Sprintf("refuse:%s:%d", ks, i/len(spell)), fmt.Sprintf("key %s has no scale, but `text conv syllable` accepts %q", ks, how), obs(res))
			return
		}
		c.Nontrivial("refuse:" + how)
	})

	// relative pairs share notes (as sets) and signature, judged on crd's own reports
	c.StreamSeq("relative", 1, func(_ int, _ *rand.Rand) {
		idx := map[string]int{}
		for i, s := range spell {
			idx[s] = i
		}
		for _, k := range theory.Supported() {
			if k.Minor {
				continue
			}
			// relative minor: tonic = sixth scale note
			rel := theory.Key{Tonic: k.Scale()[5], Minor: true}
			if !theory.IsSupported(rel.String()) {
				continue
			}
			a, b := reports[idx[k.String()]], reports[idx[rel.String()]]
			if !a.ok || !b.ok {
				continue
			}
			c.Eval(1)
			if !eqStrs(sortedCopy(a.notes), sortedCopy(b.notes)) || a.flat != b.flat || a.sharp != b.sharp {
				c.Violate("relative", 0, "relative:"+k.String(), fmt.Sprintf("relative keys %s and %s do not share notes and signature", k, rel),
					map[string]any{"major": a.notes, "minor": b.notes})
			} else {
				c.Nontrivial("relative:" + k.String())
			}
		}
	})

	// info key list: each supported key exactly once, every entry correct
	c.StreamSeq("list", 1, func(_ int, _ *rand.Rand) {
		r := run(c, nil, "info", "key", "list")
		c.Eval(1)
		if infra(c, r) {
			return
		}
		if a := abnormal(r); a != "" || !r.OK() {
			c.Violate("list", 0, "list:failed", "info key list failed "+a, obs(r))
			return
		}
		l, err := yamlList(r.Stdout)
		if err != nil {
			c.Violate("list", 0, "list:yaml", "info key list output is not a YAML list: "+err.Error(), obs(r))
			return
		}
		count := map[string]int{}
		c.Eval(len(l)) // every listed scale is compared
		for _, e := range l {
			m, _ := e.(map[string]any)
			ks := asStr(m["key"])
			count[ks]++
			flat, _ := asInt(m["flat"])
			sharp, _ := asInt(m["sharp"])
			if probs := scaleProblems(ks, strList(m["notes"]), flat, sharp); len(probs) > 0 {
				c.Violate("list", 0, "list:"+ks+":scale", fmt.Sprintf("info key list: scale of %s is wrong: %s", ks, strings.Join(probs, "; ")), nil)
			}
		}
		for _, k := range theory.Supported() {
			if count[k.String()] != 1 {
				c.Violate("list", 0, "list:"+k.String()+":count", fmt.Sprintf("info key list contains %s %d times", k, count[k.String()]), obs(r))
			} else {
				c.Nontrivial("list:" + k.String())
			}
		}
		c.Extra("listed_keys", len(l))
	})

	// the same table seen through the SMF key-signature event
	sup := theory.Supported()
	c.Stream("smf", len(sup), func(i int, _ *rand.Rand) {
		k := sup[i]
		p := model.Piece{Inst: []model.Instance{{Chord: &model.ChordSpec{Deg: theory.Interval{N: 1, Q: theory.Perfect}, Symbol: ""}, Values: []model.Frac{{Num: 1, Den: 1}}}}}
		r := run(c, p.YAML(model.YAMLStyle{}), "write", "--key", k.String())
		c.Eval(1)
		if infra(c, r) {
			return
		}
		if a := abnormal(r); a != "" || !r.OK() {
			c.Violate("smf", i, "smf:"+k.String()+":failed", "write --key "+k.String()+" failed "+a, obs(r))
			return
		}
		f, derr := decodeSMF(r.Stdout)
		if f == nil {
			c.Violate("smf", i, "smf:"+k.String()+":decode", "write --key "+k.String()+": "+derr, obs(r))
			return
		}
		found := 0
		for _, e := range mergedEvents(f) {
			if e.Kind == smfdec.Meta && e.MetaType == smfdec.MetaKSig && e.Tick == 0 {
				found++
				sf, mi := int(int8(e.Data[0])), int(e.Data[1])
				wmi := 0
				if k.Minor {
					wmi = 1
				}
				if sf != k.Signature() || mi != wmi {
					c.Violate("smf", i, "smf:"+k.String()+":sig", fmt.Sprintf("write --key %s: key signature event says sf=%d mi=%d, conventional sf=%d mi=%d", k, sf, mi, k.Signature(), wmi), nil)
				}
			}
		}
		if found != 1 {
			c.Violate("smf", i, "smf:"+k.String()+":count", fmt.Sprintf("write --key %s: %d key signature events at tick 0", k, found), nil)
		} else if k.Signature() != 0 {
			c.Nontrivial("smf:" + k.String())
		}
	})

	// the spellings without a scale stay refused whatever key is in force before them - in particular their
	// valid enharmonic twin (G# after Ab, Fb after E, A#m after Bbm), by flag or by an earlier statement,
	// on a chord and on a rest, in chord text and in instance documents
	type twinCase struct{ bad, twin string }
	var twins []twinCase
	for _, ks := range spell {
		k, err := theory.ParseKey(ks)
		if err != nil || theory.IsSupported(ks) || (k.Signature() >= -7 && k.Signature() <= 7) {
			continue
		}
		for _, o := range sup {
			if o.Minor == k.Minor && (o.TonicOffset()-k.TonicOffset())%12 == 0 {
				twins = append(twins, twinCase{ks, o.String()})
			}
		}
	}
	c.Stream("refuse-after-twin", len(twins)*6, func(i int, _ *rand.Rand) {
		tc := twins[i%len(twins)]
		tonic := strings.TrimSuffix(tc.twin, "m")
		var res *runner.Result
		var how string
		switch i / len(twins) {
		case 0:
			how = "--key " + tc.twin + ": " + tonic + "[1] " + tonic + "[1]{key=" + tc.bad + "}"
			res = run(c, []byte(tonic+"[1] "+tonic+"[1]{key="+tc.bad+"}"), "text", "conv", "syllable", "--key", tc.twin)
		case 1:
			how = "-k " + tc.twin + ": R[1]{key=" + tc.bad + "} " + tonic + "[1]"
			res = run(c, []byte("R[1]{key="+tc.bad+"} "+tonic+"[1]"), "text", "conv", "syllable", "-k", tc.twin)
		case 2:
			how = tonic + "[1]{key=" + tc.twin + "} R[1] " + tonic + "[1]{key=" + tc.bad + "}"
			res = run(c, []byte(how), "text", "conv", "syllable")
		case 3:
			how = "R[1]{key=" + tc.twin + "} R[1]{key=" + tc.bad + "} " + tonic + "[1]"
			res = run(c, []byte(how), "text", "conv", "syllable")
		case 4:
			how = "write: key " + tc.twin + " then key " + tc.bad + " on a chord"
			res = run(c, []byte("- chord: {degree: \"1\", name: \"\"}\n  values: [1]\n  key: "+jq(tc.twin)+"\n- chord: {degree: \"1\", name: \"\"}\n  values: [1]\n  key: "+jq(tc.bad)+"\n"), "write")
		default:
			how = "write --key " + tc.twin + ": key " + tc.bad + " on a later rest"
			res = run(c, []byte("- chord: {degree: \"1\", name: \"\"}\n  values: [1]\n- values: [1]\n  key: "+jq(tc.bad)+"\n- chord: {degree: \"1\", name: \"\"}\n  values: [1]\n"), "write", "--key", tc.twin)
		}
		c.Eval(1)
		if infra(c, res) {
			return
		}
		if a := abnormal(res); a != "" {
			c.Violate("refuse-after-twin", i, "refuse-after-twin:"+tc.bad+":abnormal", how+" "+a, obs(res))
			return
		}
		if res.OK() {
			c.Violate("refuse-after-twin", i, fmt.Sprintf("refuse-after-twin:%s:%d", tc.bad, i/len(twins)), fmt.Sprintf("key %s has no scale, but it is accepted right after its enharmonic twin %s (%s)", tc.bad, tc.twin, how), obs(res))
			return
		}
		c.Nontrivial("refuse-after-twin:" + how)
	})

	// the signature along histories of key statements: every statement of a key (first instance or --key at tick 0,
	// later ones at the start of their instance - on chords, on rests, restated, with no chord in between) produces
	// the conventional signature of exactly that key, in order
	c.Stream("smf-history", c.N(400, 8000), func(i int, r *rand.Rand) {
		n := 2 + r.Intn(6)
		var p model.Piece
		pool := []theory.Key{sup[r.Intn(len(sup))], sup[r.Intn(len(sup))], sup[r.Intn(len(sup))]}
		for j := 0; j < n; j++ {
			in := model.Instance{Values: []model.Frac{{Num: 1, Den: 1}}}
			if r.Intn(5) == 0 {
				// an instance that rounds to no ticks at all: the next statement falls on the same tick
				in.Values = []model.Frac{{Num: 1, Den: 4000}}
			}
			if r.Intn(5) >= 2 {
				in.Chord = &model.ChordSpec{Deg: theory.Interval{N: 1, Q: theory.Perfect}, Symbol: ""}
			}
			if r.Intn(2) == 0 {
				in.Key = pool[r.Intn(len(pool))].String() // a small pool: restatements and returns are frequent
			}
			if r.Intn(4) == 0 {
				// free metadata that is spelled like the setting (text conv leaves such an entry behind, a hand may
				// edit one of the two): in an instances document the key is the `key` field and nothing else
				in.Meta = map[string]string{"key": sup[r.Intn(len(sup))].String()}
				if r.Intn(3) == 0 {
					in.Meta["txt"] = "modulation"
				}
			}
			p.Inst = append(p.Inst, in)
		}
		var f model.Flags
		if r.Intn(2) == 0 {
			f.Key = pool[r.Intn(len(pool))].String()
		}
		// expected statements: (instance index, key)
		type stmt struct {
			inst int
			key  string
		}
		var want []stmt
		first := "C"
		if p.Inst[0].Key != "" {
			first = p.Inst[0].Key
		}
		if f.Key != "" {
			first = f.Key
		}
		want = append(want, stmt{0, first})
		for j := 1; j < n; j++ {
			if p.Inst[j].Key != "" {
				want = append(want, stmt{j, p.Inst[j].Key})
			}
		}
		res, out := playPiece(c, p, f, writeOpts{})
		if infra(c, res) {
			return
		}
		det := withYAML(map[string]any{"flag_key": f.Key}, p)
		if a := abnormal(res); a != "" || !res.OK() {
			c.Violate("smf-history", i, "smf-history:failed", "crd write fails on a piece that only uses supported keys "+a, mergeMaps(det, map[string]any{"run": obs(res)}))
			return
		}
		file, derr := decodeSMF(out)
		if file == nil {
			c.Violate("smf-history", i, "smf-history:decode", derr, det)
			return
		}
		var got []string
		for _, e := range mergedEvents(file) {
			if e.Kind == smfdec.Meta && e.MetaType == smfdec.MetaKSig {
				got = append(got, fmt.Sprintf("tick %d: sf=%d mi=%d", e.Tick, int(int8(e.Data[0])), int(e.Data[1])))
			}
		}
		var exp []string
		starts := make([]uint64, n+1)
		for j := 0; j < n; j++ {
			l := model.Lengths(int(file.Division), p.Inst[j].Values)
			starts[j+1] = starts[j] + l[0]
		}
		for _, w := range want {
			k, _ := theory.ParseKey(w.key)
			mi := 0
			if k.Minor {
				mi = 1
			}
			exp = append(exp, fmt.Sprintf("tick %d: sf=%d mi=%d", starts[w.inst], k.Signature(), mi))
		}
		if strings.Join(got, "; ") != strings.Join(exp, "; ") {
			c.Violate("smf-history", i, "smf-history:signatures", fmt.Sprintf("key signature events [%s], the key statements of the piece call for [%s]", strings.Join(got, "; "), strings.Join(exp, "; ")), det)
			return
		}
		if len(want) >= 3 {
			c.Nontrivial(fmt.Sprintf("hist%d", i))
		}
	})

	// what `crd write event` says about the signature: the name it prints for the key signature event, when it
	// prints one, is the key's (CsharpMin, EbMaj, ...: letter, sharp/b, Maj/Min)
	c.Stream("eventname", len(sup), func(i int, _ *rand.Rand) {
		k := sup[i]
		p := model.Piece{Inst: []model.Instance{{Chord: &model.ChordSpec{Deg: theory.Interval{N: 1, Q: theory.Perfect}, Symbol: ""}, Values: []model.Frac{{Num: 1, Den: 1}}}}}
		res := run(c, p.YAML(model.YAMLStyle{}), "write", "event", "--key", k.String())
		c.Eval(1)
		if infra(c, res) {
			return
		}
		if a := abnormal(res); a != "" || !res.OK() {
			c.Violate("eventname", i, "eventname:"+k.String()+":failed", "write event --key "+k.String()+" failed "+a, obs(res))
			return
		}
		for _, ln := range strings.Split(string(res.Stdout), "\n") {
			j := strings.Index(ln, "MetaKeySig key:")
			if j < 0 {
				continue
			}
			name := strings.TrimSpace(ln[j+len("MetaKeySig key:"):])
			if name == "" {
				c.Count("event_names_empty", 1) // the library has no name for seven accidentals
				continue
			}
			want := string(k.Tonic.Letter) + map[int]string{1: "sharp", -1: "b", 0: ""}[k.Tonic.Acc] + map[bool]string{false: "Maj", true: "Min"}[k.Minor]
			if name != want {
				c.Violate("eventname", i, "eventname:"+k.String(), fmt.Sprintf("write event --key %s names the key signature %q, the key is %s", k, name, want), obs(res))
				return
			}
			c.Nontrivial("eventname:" + k.String())
		}
	})
}
