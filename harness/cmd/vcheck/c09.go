package main

import (
	"bytes"
	"encoding/base64"
	"fmt"
	"math/rand"
	"os"
	"regexp"
	"strings"
	"syscall"
	"time"

	"verif/core"
	"verif/model"
	"verif/runner"
	"verif/theory"
)

func init() { register("C09", checkC09) }

var panicLine = regexp.MustCompile(`(?m)^(panic: .*|fatal error: .*)$`)

// outcomeProblem classifies the form of one outcome. "" = acceptable.
// class is a short stable word used in signatures.
func outcomeProblem(r *runner.Result) (class, msg string) {
	if r.Blocked {
		return "hang", "never finishes: the process is asleep and consumes no CPU any more (deadlock)"
	}
	if r.CPUHang() {
		return "hang", "exceeded the CPU-time limit"
	}
	if ok, why := r.Crashed(); ok {
		first := why
		if m := panicLine.Find(r.Stderr); m != nil {
			first = string(m)
		}
		return "crash", short(first, 160)
	}
	logged := bytes.Contains(r.Stderr, []byte(`"level":"ERROR"`)) || bytes.Contains(r.Stderr, []byte("\nError: ")) || bytes.HasPrefix(r.Stderr, []byte("Error: "))
	if r.Exit == 0 && logged {
		return "exit0-on-error", "reports an error on stderr but exits with status 0"
	}
	if r.Exit != 0 {
		if len(bytes.TrimSpace(r.Stdout)) > 0 {
			return "stdout-on-failure", "fails but prints a result on stdout"
		}
		if len(bytes.TrimSpace(r.Stderr)) == 0 {
			return "silent-failure", "fails without a diagnostic on stderr"
		}
	}
	return "", ""
}

// fuzz seeds
func seedTexts(r *rand.Rand) [][]byte {
	var out [][]byte
	for i := 0; i < 6; i++ {
		p := model.RandPiece(r, model.GenOpts{MinLen: 1, MaxLen: 6, RestProb: 0.2, SettingProb: 0.3, TextProb: 0.3, KeyChanges: true, BassProb: 0.5, MaxDeg: 7, SimpleOnly: true, TextSafe: true})
		if t, ok := p.DegreeTextPiece(model.TextOpts{}); ok {
			out = append(out, []byte(t))
		}
		if t, ok := p.SyllableTextPiece("C", model.TextOpts{}); ok {
			out = append(out, []byte(t))
		}
	}
	out = append(out, []byte(randomChordText(r, 5, true)), []byte("C[1]"), []byte("1_7/3[1,1/4]{key=Am,bpm=120} R[2] ;c\n"))
	return out
}

func seedYAMLs(r *rand.Rand) [][]byte {
	var out [][]byte
	for i := 0; i < 8; i++ {
		p := model.RandPiece(r, model.GenOpts{MinLen: 1, MaxLen: 5, RestProb: 0.2, SettingProb: 0.4, TextProb: 0.4, KeyChanges: true, BassProb: 0.5})
		out = append(out, p.YAML(randWriteOpts(r).style))
	}
	return out
}

var hostileInserts = [][]byte{
	{0xff}, {0xc0, 0x80}, {0xed, 0xa0, 0x80}, {0x80}, {0}, {0xe2, 0x99}, {0xf4, 0x90, 0x80, 0x80}, []byte("\r\n"), []byte("\ufeff"),
	[]byte("\t"), []byte("---\n"), []byte("&a "), []byte("*a"), []byte("<<: *a\n"), []byte("!!binary "), []byte("? "), []byte(": "), []byte("- "), []byte("[[[["), []byte("{{{{"), []byte("]]]]"), []byte("}}}}"), []byte("'"), []byte("\""),
	[]byte("_"), []byte("/"), []byte(";"), []byte("="), []byte(","), []byte("#"), []byte("b"), []byte("♯"), []byte("♭"), []byte("𝄪"),
}

// mutate applies one random mutation.
func mutate(r *rand.Rand, seed []byte, other []byte) []byte {
	b := append([]byte(nil), seed...)
	switch r.Intn(12) {
	case 0: // truncation
		if len(b) > 0 {
			b = b[:r.Intn(len(b))]
		}
	case 1: // bit flip
		if len(b) > 0 {
			i := r.Intn(len(b))
			b[i] ^= 1 << uint(r.Intn(8))
		}
	case 2: // delete byte(s)
		if len(b) > 1 {
			i := r.Intn(len(b))
			n := 1 + r.Intn(3)
			if i+n > len(b) {
				n = len(b) - i
			}
			b = append(b[:i], b[i+n:]...)
		}
	case 3: // duplicate a slice
		if len(b) > 1 {
			i := r.Intn(len(b))
			j := i + 1 + r.Intn(len(b)-i)
			b = append(b[:j], append(append([]byte{}, b[i:j]...), b[j:]...)...)
		}
	case 4: // splice
		if len(other) > 0 && len(b) > 0 {
			b = append(b[:r.Intn(len(b))], other[r.Intn(len(other)):]...)
		}
	case 5, 6, 7: // hostile insert
		ins := hostileInserts[r.Intn(len(hostileInserts))]
		i := r.Intn(len(b) + 1)
		b = append(b[:i], append(append([]byte{}, ins...), b[i:]...)...)
	case 8: // random byte
		i := r.Intn(len(b) + 1)
		b = append(b[:i], append([]byte{byte(r.Intn(256))}, b[i:]...)...)
	case 9: // replace a digit run by a huge number
		huge := strings.Repeat("9", []int{20, 64, 400, 4000}[r.Intn(4)])
		s := string(b)
		if i := strings.IndexAny(s, "0123456789"); i >= 0 {
			b = []byte(s[:i] + huge + s[i+1:])
		}
	case 10: // swap two bytes
		if len(b) > 2 {
			i, j := r.Intn(len(b)), r.Intn(len(b))
			b[i], b[j] = b[j], b[i]
		}
	case 11: // repeat whole
		n := 2 + r.Intn(4)
		b = bytes.Repeat(b, n)
	}
	if len(b) > 60000 {
		b = b[:60000]
	}
	return b
}

// bigInputs are over-long inputs inside the promptness domain (<= 64 KiB, tokens <= 16 KiB).
func bigInputs() [][]byte {
	var out [][]byte
	// runes that end a token at once: 64 KiB of them; runes that build one long token: 16 Ki runes
	// (the promptness domain of DESIGN.md: inputs <= 64 KiB, single tokens <= 16 KiB)
	for _, c := range []string{"C", "[", "]", "{", "}", "_", ";", " ", "\n", "=", ",", "/", "#", "b", "R"} {
		out = append(out, bytes.Repeat([]byte(c), 65536/len(c)))
	}
	for _, c := range []string{"1", "m", "x", "-", ":", "\xff", "é"} {
		out = append(out, bytes.Repeat([]byte(c), 16384/len(c)))
	}
	out = append(out,
		[]byte("C["+strings.Repeat("7", 16384)+"]"),
		[]byte("C_"+strings.Repeat("x", 16384)+"[1]"),
		[]byte("C[1]{k="+strings.Repeat("v", 16384)+"}"),
		[]byte(strings.Repeat("1", 16384)+"[1]"),
		[]byte(strings.Repeat("C[1] ", 10000)),
		[]byte(strings.Repeat("C[1]{a=b}\n", 5000)),
		[]byte(strings.Repeat(";c\n", 20000)),
		[]byte(strings.Repeat("[", 10000)),
		[]byte(strings.Repeat("{", 10000)),
		[]byte("- values: ["+strings.Repeat("\"1\",", 12000)+"\"1\"]\n"),
		[]byte(strings.Repeat("- values: [\"1\"]\n", 3500)),
		[]byte("a: &a [x,x,x,x,x,x,x,x,x]\nb: &b [*a,*a,*a,*a,*a,*a,*a,*a,*a]\nc: &c [*b,*b,*b,*b,*b,*b,*b,*b,*b]\nd: &d [*c,*c,*c,*c,*c,*c,*c,*c,*c]\ne: &e [*d,*d,*d,*d,*d,*d,*d,*d,*d]\nf: [*e,*e,*e,*e,*e,*e,*e,*e,*e]\n"),
		[]byte(strings.Repeat("- ", 20000)+"x"),
		[]byte("- chord: {degree: \""+strings.Repeat("9", 16000)+"\", name: \"\"}\n  values: [\"1\"]\n"),
	)
	// one instance with 2500 values whose denominators are distinct 63-bit numbers (63 KiB): their exact sum has
	// a denominator of 150,000 bits
	{
		var chord, text strings.Builder
		chord.WriteString("- chord: {degree: \"1\", name: \"\"}\n  values: [")
		text.WriteString("C[")
		d := uint64(1)<<62 + 12345
		for k := 0; k < 2500; k++ {
			if k > 0 {
				chord.WriteString(", ")
				text.WriteString(",")
			}
			fmt.Fprintf(&chord, "\"1/%d\"", d)
			fmt.Fprintf(&text, "1/%d", d)
			d += 2*uint64(k) + 7919
		}
		chord.WriteString("]\n")
		text.WriteString("]")
		out = append(out, []byte(chord.String()), []byte(text.String()))
	}
	return out
}

type fuzzTarget struct {
	name string
	args []string
	kind string // text | yaml | chordarg | chordfile | attrfile
}

var fuzzTargets = []fuzzTarget{
	{"text parse", []string{"text", "parse"}, "text"},
	{"text conv degree", []string{"text", "conv", "degree"}, "text"},
	{"text conv syllable", []string{"text", "conv", "syllable"}, "text"},
	{"text conv syllable --key", []string{"text", "conv", "syllable", "--key", "Ebm"}, "text"},
	{"write", []string{"write"}, "yaml"},
	{"write --track", []string{"write", "--track", "3"}, "yaml"},
	{"write event", []string{"write", "event"}, "yaml"},
	{"write parse", []string{"write", "parse"}, "yaml"},
	{"write conv", []string{"write", "conv", "-c", "cmt"}, "yaml"},
	{"info chord describe", []string{"info", "chord", "describe", "-t"}, "chordarg"},
	{"--chord", nil, "chordfile"},
	{"--attr", nil, "attrfile"},
}

func judgeOutcome(c *core.Ctx, stream string, idx int, target string, res *runner.Result, inputDesc map[string]any) bool {
	c.Eval(1)
	if res.WallKill || res.StartErr != nil {
		c.Inconclusive("watchdog/start failure for " + target)
		return false
	}
	class, msg := outcomeProblem(res)
	if class != "" {
		detail := msg
		if class == "crash" {
			detail = msg
		}
		d := mergeMaps(inputDesc, map[string]any{"run": obs(res)})
		c.Violate(stream, idx, fmt.Sprintf("%s:%s:%s", class, target, sigDetail(class, msg)), fmt.Sprintf("`crd %s` %s", target, detail), d)
		return false
	}
	oc := "ok"
	if res.Exit != 0 {
		oc = "refused"
	}
	c.Seen("outcomes", target+" -> "+oc)
	c.Count("outcome_"+oc, 1)
	return true
}

func sigDetail(class, msg string) string {
	if class != "crash" {
		return ""
	}
	// keep the kind of panic, drop addresses and values
	m := regexp.MustCompile(`0x[0-9a-f]+|\d+`).ReplaceAllString(msg, "N")
	return short(m, 80)
}

func inputDetail(b []byte) map[string]any {
	return map[string]any{"input": qs(b), "input_len": len(b), "input_b64": base64.StdEncoding.EncodeToString(b)}
}

func checkC09(c *core.Ctx) {
	c.Rule("(1) byte fuzz: valid chord texts, instance documents and dictionaries mutated (truncation, bit flips, insert/delete/duplicate/splice, invalid UTF-8, NUL, CRLF, BOM, YAML anchors/aliases/merge keys/tags, huge numbers, nesting) and over-long inputs up to 64 KiB, fed to every reading command through stdin, `-` and FILE; (2) flag fuzz: every flag of every command with boundary and nonsense values, and every data-producing command with an output target that refuses every byte (-o /dev/full); (3) the catalogue of musically meaningless inputs through every channel that can carry them (text metadata -> text conv -> write, also behind 1500-4000 valid chords; YAML field -> write; flag), inconsistent dictionaries of every kind incl. cycles through entries reachable by display only; " +
		"judged: no signal/panic/fatal error, CPU time below the limit, failure <=> non-zero exit with a diagnostic on stderr and nothing on stdout, catalogue items never end in a file that decodes as SMF; a tenth of the fuzz runs use the race-detector build; " +
		"non-trivial = distinct (command, input class, outcome) with an input that is not a seed; distinct by (target, mutation, outcome, input hash)")
	c.Assume("CPU-time limit 10 s per child for inputs <= 64 KiB (race build: 60 s)", "smfdec decides whether bytes are a MIDI file", "both success and refusal are acceptable for arbitrary bytes; only the form of the outcome is judged")

	// ---------------- (1) byte fuzz
	nf := c.N(2600, 200000)
	c.Stream("fuzz", nf, func(i int, r *rand.Rand) {
		t := fuzzTargets[i%len(fuzzTargets)]
		texts, yamls := seedTexts(r), seedYAMLs(r)
		var seed, other []byte
		switch t.kind {
		case "text":
			seed, other = texts[r.Intn(len(texts))], yamls[r.Intn(len(yamls))]
		case "yaml":
			seed, other = yamls[r.Intn(len(yamls))], texts[r.Intn(len(texts))]
		case "chordarg":
			seed, other = []byte([]string{"Cm7", "F#_7", "Bbmaj7", "C_MinorSeventh", "E"}[r.Intn(5)]), texts[r.Intn(len(texts))]
		case "chordfile":
			f := genForest(r, "f")
			seed, other = chordsYAML(f.chords), yamls[r.Intn(len(yamls))]
		case "attrfile":
			f := genForest(r, "f")
			seed, other = attrsYAML(f.attrs), yamls[r.Intn(len(yamls))]
		}
		in := seed
		nm := 1 + r.Intn(3)
		if r.Intn(12) == 0 {
			nm = 0 // unmutated seed: must be handled too
		}
		for k := 0; k < nm; k++ {
			in = mutate(r, in, other)
		}
		var res *runner.Result
		opt := runner.Opt{}
		useRace := c.CrdRace != "" && i%10 == 9 && len(in) <= 8192
		if useRace {
			opt.Bin = c.CrdRace
			opt.CPUSec = 60
			opt.Env = []string{"GORACE=halt_on_error=0 atexit_sleep_ms=0"}
		}
		args := append([]string{}, t.args...)
		via := "stdin"
		switch t.kind {
		case "text", "yaml":
			switch r.Intn(3) {
			case 0:
				opt.Stdin = in
			case 1:
				opt.Stdin = in
				args = append(args, "-")
				via = "dash"
			default:
				args = append(args, c.Scratch.File("fuzz.in", in))
				opt.Stdin = []byte{}
				via = "file"
			}
		case "chordarg":
			if bytes.IndexByte(in, 0) >= 0 {
				in = bytes.ReplaceAll(in, []byte{0}, []byte("0"))
			}
			args = append(args, string(in))
			opt.Stdin = []byte{}
		case "chordfile":
			args = []string{[]string{"write", "info", "info"}[r.Intn(3)]}
			if args[0] == "info" {
				args = []string{"info", "chord", "describe", "-t", "Cm7"}
				if r.Intn(2) == 0 {
					args = []string{"info", "chord", "list"}
				}
			}
			args = append(args, "--chord", c.Scratch.File("fuzz-chord.yml", in))
			opt.Stdin = yamls[0]
		case "attrfile":
			args = []string{"write"}
			if r.Intn(2) == 0 {
				args = []string{"info", "attr", "describe", "-t", "Major3"}
				if r.Intn(2) == 0 {
					args = []string{"info", "attr", "list"}
				}
			}
			args = append(args, "--attr", c.Scratch.File("fuzz-attr.yml", in))
			opt.Stdin = yamls[0]
		}
		res = c.Crd.Run(opt, args...)
		if useRace {
			c.Count("race_build_runs", 1)
			if n := bytes.Count(res.Stderr, []byte("WARNING: DATA RACE")); n > 0 {
				c.Violate("fuzz", i, "race:"+t.name, fmt.Sprintf("the race detector reports %d data race(s) in `crd %s`", n, t.name), mergeMaps(inputDetail(in), map[string]any{"run": obs(res)}))
				return
			}
		}
		if judgeOutcome(c, "fuzz", i, t.name, res, inputDetail(in)) {
			oc := "ok"
			if res.Exit != 0 {
				oc = "refused"
			}
			if nm > 0 {
				c.Nontrivial(fmt.Sprintf("%s|%s|%s|%x", t.name, via, oc, hashBytes(in)))
			}
			if c.WantSample() && nm > 0 {
				c.Sample(map[string]any{"cmd": "crd " + strings.Join(t.args, " "), "via": via, "input": qs(in), "exit": res.Exit})
			}
		}
	})

	// over-long inputs
	big := bigInputs()
	c.Stream("big", len(big)*3, func(i int, r *rand.Rand) {
		in := big[i%len(big)]
		var t fuzzTarget
		switch i / len(big) {
		case 0:
			t = fuzzTargets[0]
		case 1:
			t = fuzzTargets[2]
		default:
			t = fuzzTargets[4]
		}
		res := c.Crd.Run(runner.Opt{Stdin: in}, t.args...)
		if judgeOutcome(c, "big", i, t.name, res, inputDetail(in)) {
			c.Nontrivial(fmt.Sprintf("big|%s|%d", t.name, i))
			c.Extra("max_cpu_ms_big_inputs", maxInt64(&bigCPU, res.CPUms))
		}
	})

	// a long but ordinary piece on a machine with a modest amount of memory to give: tens of thousands of chords
	// (200 - 700 KB of chord text, or the instances document of such a piece) under a data segment limit of 1 GiB,
	// thorough also twice the piece under 2 GiB. What is demanded is the form of the outcome - no runtime fatal
	// error, and success since the piece is valid -, and the limit is more than 1500 times the size of the input.
	// The size per command is chosen so that the repaired tree needs at most 0.4 of the limit (measured: the
	// smallest limit it survives varies by some 15% from run to run with the timing of the garbage collector)
	// and the tree before F-45 at least 1.7 times the limit.
	memCmds := []struct {
		name   string
		args   []string
		text   bool
		chords int
	}{
		{"text parse", []string{"text", "parse"}, true, 40000},
		{"text conv syllable", []string{"text", "conv", "syllable"}, true, 120000},
		{"write parse", []string{"write", "parse"}, false, 60000},
		{"write conv", []string{"write", "conv", "-c", "cmt"}, false, 80000},
		{"write", []string{"write"}, false, 60000},
		{"write event", []string{"write", "event", "--track", "2"}, false, 60000},
		{"gen attr", []string{"gen", "attr", "-d"}, false, 100000},
		// a user dictionary of 100,000 chords (10 MB) / 150,000 attributes, listed
		{"info chord list", []string{"info", "chord", "list", "--chord"}, false, 100000},
		{"info attr list", []string{"info", "attr", "list", "--attr"}, false, 150000},
		// F-47 (known): ONE chord with 40,000 tied values (160 KB of text) through text parse
		{"text parse (one chord)", []string{"text", "parse"}, true, 40000},
	}
	memSizes := []struct{ factor, dataKB int }{{1, 1 << 20}}
	if !c.Quick() {
		memSizes = append(memSizes, struct{ factor, dataKB int }{2, 2 << 20})
	}
	var memRSS int64
	c.Stream("memory", len(memCmds)*len(memSizes), func(i int, r *rand.Rand) {
		mc, sz := memCmds[i%len(memCmds)], memSizes[i/len(memCmds)]
		// a four-chord unit chosen by the seed, repeated
		roots := []string{"C", "D", "E", "F", "G", "A", "B"}
		syms := []struct{ text, name string }{{"", ""}, {"m", "m"}, {"_7", "7"}, {"m7", "m7"}, {"M7", "M7"}, {"sus4", "sus4"}, {"dim", "dim"}}
		var text, doc strings.Builder
		for k := 0; k < 4; k++ {
			ri, sy := r.Intn(len(roots)), syms[r.Intn(len(syms))]
			fmt.Fprintf(&text, "%s%s[1] ", roots[ri], sy.text)
			fmt.Fprintf(&doc, "- chord: {degree: \"%d\", name: %s}\n  values: [\"1\"]\n", ri+1, jq(sy.name))
		}
		chords := mc.chords * sz.factor
		unit, n := doc.String(), chords/4
		if mc.text {
			unit = text.String() + "\n"
		}
		var in []byte
		switch mc.name {
		case "gen attr":
			mc.args = append(append([]string{}, mc.args...), fmt.Sprint(chords))
		case "info chord list", "info attr list":
			var b strings.Builder
			for k := 0; k < chords; k++ {
				if mc.name == "info chord list" {
					fmt.Fprintf(&b, "- name: Zmem%06d\n  meta:\n    display: zmem%06d\n  attributes:\n    - Perfect1\n    - Major3\n    - Perfect5\n", k, k)
				} else {
					fmt.Fprintf(&b, "- name: Zmem%06d\n  degree: \"%d\"\n", k, 1+k%15)
				}
			}
			unit, n = "(generated dictionary)", chords
			mc.args = append(append([]string{}, mc.args...), c.Scratch.File(fmt.Sprintf("mem-dict-%d.yml", i), []byte(b.String())))
		case "text parse (one chord)":
			unit = "1/2,"
			in = []byte("C[" + strings.Repeat(unit, chords-1) + "1/2]\n")
		default:
			in = []byte(strings.Repeat(unit, n))
		}
		res := c.Crd.Run(runner.Opt{Stdin: in, DataKB: sz.dataKB, CPUSec: 600}, mc.args...)
		det := map[string]any{"unit": unit, "repeated": n, "input_len": len(in), "data_limit_kb": sz.dataKB, "argv": runner.ShellQuote(mc.args)}
		if !judgeOutcome(c, "memory", i, mc.name+" (long piece, limited memory)", res, det) {
			return
		}
		if !res.OK() {
			c.Violate("memory", i, "memory:refused:"+mc.name, fmt.Sprintf("`crd %s` refuses a valid piece of %d chords under a data limit of %d KiB", mc.name, chords, sz.dataKB), mergeMaps(det, map[string]any{"run": obs(res)}))
			return
		}
		c.Nontrivial(fmt.Sprintf("memory|%s|%d|%s", mc.name, chords, unit))
		c.Extra("max_rss_kb_long_piece", maxInt64(&memRSS, res.MaxRSSKB))
	})

	// huge interval numbers through every channel: only the form of the outcome is judged
	hugeNums := []string{"64", "1000", "1000000", "1000000000", "4294967296", "9223372036854775807", "18446744073709551615", "18446744073709551616"}
	c.Stream("hugedegree", len(hugeNums)*6, func(i int, r *rand.Rand) {
		n := hugeNums[i%len(hugeNums)]
		var res *runner.Result
		var name string
		switch i / len(hugeNums) {
		case 0:
			name = "text conv degree"
			res = c.Crd.Run(runner.Opt{Stdin: []byte(n + "[1] 1/" + n + "b[1]")}, "text", "conv", "degree")
		case 1:
			name = "text conv degree | write"
			r1 := c.Crd.Run(runner.Opt{Stdin: []byte(n + "#m7/" + n + "[1]")}, "text", "conv", "degree")
			if !judgeOutcome(c, "hugedegree", i, "text conv degree", r1, map[string]any{"degree": n}) || !r1.OK() {
				return
			}
			res = c.Crd.Run(runner.Opt{Stdin: r1.Stdout}, "write")
		case 2:
			name = "write"
			res = c.Crd.Run(runner.Opt{Stdin: []byte("- chord: {degree: \"bb" + n + "\", name: \"m\", base: \"#" + n + "\"}\n  values: [1]\n")}, "write")
		case 3:
			name = "write event"
			res = c.Crd.Run(runner.Opt{Stdin: []byte("- chord: {degree: \"" + n + "\", name: \"\"}\n  values: [1]\n")}, "write", "event")
		case 4:
			name = "info attr describe --attr"
			f := c.Scratch.File("huge-attr.yml", []byte("- name: Zhuge\n  degree: \"b"+n+"\"\n"))
			res = c.Crd.Run(runner.Opt{Stdin: []byte{}}, "info", "attr", "describe", "-t", "Zhuge", "-r", "Eb", "--attr", f)
		default:
			name = "write conv"
			res = c.Crd.Run(runner.Opt{Stdin: []byte("- chord: {degree: \"" + n + "\", name: \"\", base: \"" + n + "\"}\n  values: [1]\n")}, "write", "conv", "-c", "cmt")
		}
		if judgeOutcome(c, "hugedegree", i, name, res, map[string]any{"degree": n}) {
			c.Nontrivial("hugedegree|" + name + "|" + n)
		}
	})

	// inconsistent user dictionaries (dangling references, cycles, unnamed entries): whatever the
	// command decides, it must decide it in the proper form
	c.Stream("dictionaries", c.N(120, 1500), func(i int, r *rand.Rand) {
		f, kind, used := brokenForest(i, r)
		args := writeDictFiles(c, r, f)
		sym := "m7"
		if used && kind != "unnamed-chord" {
			sym = "Zbroken"
		}
		if used && strings.HasPrefix(kind, "shadowed") {
			sym = "zbrokenold" // the entry that is reachable through its display symbol only
		}
		doc := []byte("- chord: {degree: \"1\", name: \"" + sym + "\"}\n  values: [1]\n")
		for _, cmd := range [][]string{{"write"}, {"write", "event"}, {"write", "conv", "-c", "cmt"}, {"info", "chord", "describe", "-t", "C_" + sym}, {"info", "chord", "list"}, {"info", "attr", "list"}, {"info", "attr", "describe", "-t", "Perfect5"}} {
			res := c.Crd.Run(runner.Opt{Stdin: doc}, append(append([]string{}, cmd...), args...)...)
			if !judgeOutcome(c, "dictionaries", i, strings.Join(cmd[:min(2, len(cmd))], " ")+" (inconsistent dictionary: "+kind+")", res, map[string]any{"kind": kind, "chord_yaml": short(string(chordsYAML(f.chords)), 1500)}) {
				return
			}
		}
		c.Nontrivial(fmt.Sprintf("dict|%s|%v|%d", kind, used, i))
	})

	// chord describe targets: every shape of one-token and few-token texts (the target is parsed as chord text)
	targets := []string{"R", "R[1]", "1", "", " ", "C D", "C[1]", "C[1] D[1]", "/", "_", "{", "}", "C/", "C/G", "Cm7/G", "1m7", "♯", ";c", ";c\nR", ";c\nC", "C;x", "C_", "C_7", "C__7", "Cm7[", "Cm7]", "[1]", "R R", "Cb", "C♭m", "B#dim7", "Cm7 ", "\tCm7", "C{a=b}", "C=", "C,", "0", "C0", "c", "H7", strings.Repeat("C", 300), "C" + strings.Repeat("m", 5000)}
	c.Stream("targets", len(targets)*2, func(i int, r *rand.Rand) {
		t := targets[i%len(targets)]
		args := []string{"info", "chord", "describe", "-t", t}
		if i >= len(targets) {
			args = append(args, "-s")
		}
		res := c.Crd.Run(runner.Opt{Stdin: []byte{}}, args...)
		if judgeOutcome(c, "targets", i, "info chord describe -t", res, map[string]any{"target": qs([]byte(t))}) {
			c.Nontrivial("target|" + t + fmt.Sprint(i >= len(targets)))
		}
	})

	// ---------------- (2) flag fuzz
	flagFuzz(c)

	// an output target that accepts the open but no byte (-o /dev/full): a command that has something to
	// print cannot have succeeded
	fullCmds := []struct {
		args  []string
		stdin string
	}{
		{[]string{"write"}, "doc"}, {[]string{"write", "--track", "3"}, "doc"}, {[]string{"write", "event"}, "doc"}, {[]string{"write", "parse"}, "doc"}, {[]string{"write", "conv", "-c", "cmt"}, "doc"},
		{[]string{"text", "parse"}, "text"}, {[]string{"text", "conv", "syllable"}, "text"}, {[]string{"text", "conv", "degree"}, "dtext"},
		{[]string{"info", "attr", "list"}, ""}, {[]string{"info", "attr", "describe", "-t", "Major3"}, ""}, {[]string{"info", "chord", "list"}, ""}, {[]string{"info", "chord", "describe", "-t", "Cm7"}, ""},
		{[]string{"info", "key", "list"}, ""}, {[]string{"info", "key", "describe", "--key", "D"}, ""}, {[]string{"info", "key", "conv", "--key", "D", "-c", "pd"}, ""}, {[]string{"gen", "attr"}, ""}, {[]string{"gen", "attr", "-d", "3"}, ""},
	}
	c.Stream("devfull", len(fullCmds)*2, func(i int, r *rand.Rand) {
		fc := fullCmds[i%len(fullCmds)]
		flag := []string{"-o", "/dev/full"}
		if i >= len(fullCmds) {
			flag = []string{"--output=/dev/full"}
		}
		stdin := map[string][]byte{"doc": []byte("- chord: {degree: \"1\", name: \"m7\"}\n  values: [\"1\"]\n- values: [2]\n"), "text": []byte("C[1] Am7/G[2] R[1]"), "dtext": []byte("1[1] 6m7/5[2] R[1]"), "": {}}[fc.stdin]
		res := c.Crd.Run(runner.Opt{Stdin: stdin}, append(append([]string{}, fc.args...), flag...)...)
		name := strings.Join(fc.args[:min(3, len(fc.args))], " ") + " -o /dev/full"
		if !judgeOutcome(c, "devfull", i, name, res, map[string]any{"argv": runner.ShellQuote(res.Argv)}) {
			return
		}
		if res.Exit == 0 {
			c.Violate("devfull", i, "silent-write-failure:"+strings.Join(fc.args[:min(3, len(fc.args))], " "), fmt.Sprintf("`crd %s` reports success although its output could not be written (the target refuses every byte)", strings.Join(res.Argv, " ")), map[string]any{"run": obs(res)})
			return
		}
		c.Nontrivial("devfull|" + name + fmt.Sprint(i >= len(fullCmds)))
	})

	// faults on the standard streams themselves: standard output that refuses every byte (/dev/full) or is
	// closed, standard input that is closed. A command whose result could not be delivered must not claim success.
	redirs := []string{">/dev/full", ">&-", "<&-", "<&- >&-", ">LIMITED"} // LIMITED: a regular file that may grow to 512 bytes only
	stdCmds := append(append([]struct {
		args  []string
		stdin string
	}{}, fullCmds...), []struct {
		args  []string
		stdin string
	}{{[]string{"midi", "port", "out"}, ""}, {[]string{"midi", "port", "in"}, ""}, {[]string{"write", "play"}, "doc"}}...)
	c.Stream("stdfaults", len(stdCmds)*len(redirs), func(i int, r *rand.Rand) {
		fc := stdCmds[i%len(stdCmds)]
		rd := redirs[i/len(stdCmds)]
		payload := map[string][]byte{"doc": []byte("- chord: {degree: \"1\", name: \"m7\"}\n  values: [\"1\"]\n- values: [2]\n"), "text": []byte("C[1] Am7/G[2] R[1]"), "dtext": []byte("1[1] 6m7/5[2] R[1]"), "": {}}[fc.stdin]
		args := append([]string{}, fc.args...)
		stdin := payload
		if strings.Contains(rd, "<&-") && fc.stdin != "" && i%2 == 0 {
			// with standard input closed the input comes from a FILE (the descriptor 0 is free for it)
			args = append(args, c.Scratch.File("in.txt", payload))
			stdin = nil
		}
		name := strings.Join(fc.args[:min(3, len(fc.args))], " ") + " " + rd
		if len(fc.args) >= 2 && fc.args[1] == "play" {
			return // known finding F-20 (the testdrv port), judged by the flags stream
		}
		// what the command prints on an ordinary run
		ref := c.Crd.Run(runner.Opt{Stdin: payload}, fc.args...)
		ro := runner.Opt{Stdin: stdin, Redirect: rd}
		limited := ""
		if rd == ">LIMITED" {
			limited = c.Scratch.Path("limited.out")
			ro.Redirect, ro.FileBlocks = ">"+limited, 1
		}
		res := c.Crd.Run(ro, args...)
		if res.Signal == int(syscall.SIGXFSZ) {
			return // the default action of the limit itself
		}
		if !judgeOutcome(c, "stdfaults", i, name, res, map[string]any{"argv": runner.ShellQuote(res.Argv), "redirect": rd}) {
			return
		}
		if limited != "" && ref.OK() && res.Exit == 0 && !bytes.Equal(readFileOrNil(limited), ref.Stdout) {
			c.Violate("stdfaults", i, "silent-write-failure:"+strings.Join(fc.args[:min(3, len(fc.args))], " ")+":limited", fmt.Sprintf("`crd %s` reports success although only %d of its %d bytes of output fit into the output file (file size limit)", strings.Join(fc.args, " "), len(readFileOrNil(limited)), len(ref.Stdout)), map[string]any{"run": obs(res)})
			return
		}
		// (a closed standard output is not such a fault: the Go runtime re-opens closed standard descriptors on
		// /dev/null at start-up, so the writes succeed; those runs are only judged for their form)
		if strings.Contains(rd, "/dev/full") && ref.OK() && len(ref.Stdout) > 0 && res.Exit == 0 {
			c.Violate("stdfaults", i, "silent-write-failure:"+strings.Join(fc.args[:min(3, len(fc.args))], " ")+":"+rd, fmt.Sprintf("`crd %s %s` reports success although none of its %d bytes of output could be written", strings.Join(fc.args, " "), rd, len(ref.Stdout)), map[string]any{"run": obs(res)})
			return
		}
		if rd == "<&-" && stdin == nil && ref.OK() && (res.Exit != 0 || !bytes.Equal(res.Stdout, ref.Stdout)) {
			c.Violate("stdfaults", i, "closed-stdin-with-file:"+strings.Join(fc.args[:min(3, len(fc.args))], " "), fmt.Sprintf("`crd %s FILE <&-`: the input is a FILE, yet the closed standard input changes the result (exit %d)", strings.Join(fc.args, " "), res.Exit), map[string]any{"run": obs(res)})
			return
		}
		c.Nontrivial("stdfaults|" + name + fmt.Sprint(stdin == nil))
	})

	// input typed on a terminal: lines, then the end-of-file key once. The command must finish (a reader
	// that asks the terminal again after the end of input waits for the user forever).
	ttyCmds := []struct {
		args  []string
		stdin string
	}{
		{[]string{"text", "parse"}, "C[1] Am7/G[2]{txt=x}\nR[1] ;c\nD_7[1]\n"}, {[]string{"text", "parse", "-"}, "C[1]\n"}, {[]string{"text", "parse"}, "C[1] D[\n"}, {[]string{"text", "parse"}, ""},
		{[]string{"text", "conv", "syllable", "--key", "D"}, "D[1] A_7/E[2]\nR[1]\n"}, {[]string{"text", "conv", "degree"}, "1[1] 5_7[2] ;x\n"}, {[]string{"text", "conv", "degree"}, "1[1] C[1]\n"},
		{[]string{"write"}, "- chord: {degree: \"1\", name: \"m7\"}\n  values: [1]\n"}, {[]string{"write", "event", "-"}, "- chord: {degree: \"1\", name: \"m7\"}\n  values: [1]\n"}, {[]string{"write", "parse"}, "- values: [1]\n"}, {[]string{"write", "conv", "-c", "cmt"}, "- chord: {degree: \"5\", name: \"7\"}\n  values: [1]\n"},
		{[]string{"info", "chord", "describe", "-t", "Cm7"}, ""}, {[]string{"info", "key", "list"}, ""},
	}
	c.Stream("tty", len(ttyCmds), func(i int, r *rand.Rand) {
		tc := ttyCmds[i]
		ref := c.Crd.Run(runner.Opt{Stdin: []byte(tc.stdin)}, tc.args...)
		res := c.Crd.Run(runner.Opt{Stdin: []byte(tc.stdin), StdinKind: "pty1", IdleAfter: 4 * time.Second}, tc.args...)
		name := strings.Join(tc.args[:min(3, len(tc.args))], " ") + " (typed on a terminal)"
		if res.StartErr != nil {
			c.Inconclusive("no pseudo terminal available: " + res.StartErr.Error())
			return
		}
		if !judgeOutcome(c, "tty", i, name, res, map[string]any{"typed": tc.stdin}) {
			return
		}
		if res.OK() != ref.OK() || !bytes.Equal(res.Stdout, ref.Stdout) {
			c.Violate("tty", i, "tty-differs:"+strings.Join(tc.args[:min(3, len(tc.args))], " "), fmt.Sprintf("`crd %s`: typed on a terminal the input gives exit %d and %d bytes, through a pipe exit %d and %d bytes", strings.Join(tc.args, " "), res.Exit, len(res.Stdout), ref.Exit, len(ref.Stdout)), map[string]any{"run": obs(res)})
			return
		}
		c.Nontrivial("tty|" + name + tc.stdin)
	})

	// single edge cases that earlier rounds or readers of the code pointed at: whatever crd decides, in proper form
	rest := "- values: [1]\n"
	noDegree := "- chord: {name: m7}\n  values: [1]\n"
	edges := []struct {
		args  []string
		stdin string
	}{
		{[]string{"write", "event", "--track", "32768"}, rest}, {[]string{"write", "event", "--track", "32769"}, rest}, {[]string{"write", "event", "--track", "40000"}, rest}, {[]string{"write", "event", "--track", "65535"}, rest},
		{[]string{"write", "--track", "32769"}, rest}, {[]string{"write", "--track", "65535"}, rest},
		{[]string{"write", "parse"}, noDegree}, {[]string{"write", "conv", "-c", "cmt"}, noDegree}, {[]string{"write"}, noDegree}, {[]string{"write", "event"}, noDegree},
		{[]string{"write", "parse"}, "- chord: {degree: ~, name: m7}\n  values: [1]\n"}, {[]string{"write", "conv", "-c", "cmt"}, "- chord: {}\n  values: [1]\n"}, {[]string{"write", "parse"}, "- chord: {degree: \"1\"}\n  values: [1]\n"},
		{[]string{"write", "parse"}, "- chord: {degree: \"1\", name: m7, base: ~}\n  values: [1]\n"},
		{[]string{"info", "attr", "describe", "-t", "Major3", "-r", "D♭"}, ""}, {[]string{"info", "attr", "describe", "-t", "Major3", "-r", "xF"}, ""}, {[]string{"info", "attr", "describe", "-t", "Major3", "-r", "C##"}, ""}, {[]string{"info", "attr", "describe", "-t", "Major3", "-r", ""}, ""},
	}
	// F-48: a merge key next to a mapping or sequence used as a key makes yaml.v3 panic instead of returning an error
	{
		docs := []string{"- values: [1]\n  meta:\n    <<: {a: b}\n    ? {c: d}\n    : e\n", "- values: [1]\n  meta:\n    <<: {a: b}\n    ? [c, d]\n    : e\n",
			"- chord: {degree: \"1\", name: m7}\n  values: [1]\n  <<: {bpm: 90}\n  ? {x: y}\n  : z\n", "- <<: {values: [1]}\n  ? [a]\n  : b\n"}
		for _, d := range docs {
			for _, a := range [][]string{{"write"}, {"write", "event"}, {"write", "parse"}, {"write", "conv", "-c", "cmt"}} {
				edges = append(edges, struct {
					args  []string
					stdin string
				}{a, d})
			}
		}
		cf := c.Scratch.File("merge-complex-chord.yml", []byte("- name: Zx\n  meta:\n    <<: {display: zx}\n    ? {c: d}\n    : e\n  attributes: [Perfect1]\n"))
		af := c.Scratch.File("merge-complex-attr.yml", []byte("- name: Za\n  <<: {degree: \"3\"}\n  ? [c, d]\n  : e\n"))
		for _, a := range [][]string{{"info", "chord", "list", "--chord", cf}, {"write", "--chord", cf}, {"info", "attr", "list", "--attr", af}, {"info", "attr", "describe", "-t", "Za", "--attr", af}, {"write", "parse", "--attr", af}} {
			edges = append(edges, struct {
				args  []string
				stdin string
			}{a, "- chord: {degree: \"1\", name: m7}\n  values: [1]\n"})
		}
	}
	// --port values that look like numbers
	for _, v := range []string{"0", "1", "+1", "-1", "-7", "2", "00", "1e0", "9223372036854775807", "-9223372036854775808"} {
		edges = append(edges, struct {
			args  []string
			stdin string
		}{[]string{"write", "play", "--port", v}, "- chord: {degree: \"1\", name: m7}\n  values: [1]\n"}, struct {
			args  []string
			stdin string
		}{[]string{"write", "play", "-p=" + v}, rest})
	}
	// multi-byte characters in values that are walked character by character (-c, -r, -t, --key)
	for _, v := range []string{"éd", "d♯s", "ｐｓ", "рd", "d\u0301d", "ds😀p", "\xffd", "d\xe2\x99"} {
		for _, a := range [][]string{{"info", "key", "conv", "--key", "D", "-c", v}, {"info", "key", "conv", "-c", v}, {"info", "key", "describe", "--key", v}, {"info", "attr", "describe", "-t", "Major3", "-r", v}, {"info", "chord", "describe", "-t", v}, {"write", "conv", "-c", v}} {
			edges = append(edges, struct {
				args  []string
				stdin string
			}{a, rest})
		}
	}
	// definitions without a degree
	noDegAttr := c.Scratch.File("nodeg-attr.yml", []byte("- name: Znd\n"))
	noDegChord := c.Scratch.File("nodeg-chord.yml", []byte("- name: Zc\n  meta: {display: zc}\n  attributes: [Perfect1, Znd]\n"))
	for _, a := range [][]string{{"info", "attr", "describe", "-t", "Znd", "--attr", noDegAttr}, {"info", "attr", "list", "--attr", noDegAttr}, {"info", "chord", "describe", "-t", "C_zc", "--attr", noDegAttr, "--chord", noDegChord}, {"write", "--attr", noDegAttr, "--chord", noDegChord}} {
		edges = append(edges, struct {
			args  []string
			stdin string
		}{a, "- chord: {degree: \"1\", name: zc}\n  values: [1]\n"})
	}
	// a consistent dictionary with a chain of 45 extends: resolving its last chord is a matter of milliseconds
	{
		var cs []userChord
		for k := 0; k < 45; k++ {
			uc := userChord{Name: fmt.Sprintf("Zlong%d", k), Display: fmt.Sprintf("zlong%d", k), Attrs: []string{[]string{"Perfect1", "Major3", "Perfect5", "Minor7", "Major9"}[k%5]}}
			if k > 0 {
				uc.Extends = fmt.Sprintf("Zlong%d", k-1)
			}
			cs = append(cs, uc)
		}
		chain := c.Scratch.File("long-chain.yml", chordsYAML(cs))
		for _, a := range [][]string{{"info", "chord", "describe", "-t", "C_zlong44", "--chord", chain}, {"write", "--chord", chain}, {"write", "event", "--chord", chain}, {"info", "chord", "list", "--chord", chain}} {
			edges = append(edges, struct {
				args  []string
				stdin string
			}{a, "- chord: {degree: \"1\", name: zlong44}\n  values: [1]\n"})
		}
	}
	// chords with more notes than MIDI has keys (the same attributes listed over and over; a long chain of extends):
	// a consistent dictionary, so the piece is played or refused - not a crash
	{
		var many []string
		for k := 0; k < 36; k++ {
			many = append(many, "Perfect1", "Major3", "Perfect5", "Minor7")
		}
		cs := []userChord{{Name: "Zmany", Display: "zmany", Attrs: many}, {Name: "Zexact", Display: "zexact", Attrs: many[:127]}}
		for k := 0; k < 50; k++ {
			uc := userChord{Name: fmt.Sprintf("Zwide%d", k), Display: fmt.Sprintf("zwide%d", k), Attrs: []string{"Perfect1", "Major3", "Perfect5"}}
			if k > 0 {
				uc.Extends = fmt.Sprintf("Zwide%d", k-1)
			}
			cs = append(cs, uc)
		}
		wide := c.Scratch.File("wide-chords.yml", chordsYAML(cs))
		for _, sym := range []string{"zmany", "zexact", "zwide49", "zwide42"} {
			for _, a := range [][]string{{"write", "--chord", wide}, {"write", "event", "--track", "3", "--chord", wide}, {"info", "chord", "describe", "-t", "C_" + sym, "--chord", wide}} {
				edges = append(edges, struct {
					args  []string
					stdin string
				}{a, "- chord: {degree: \"1\", name: " + sym + "}\n  values: [1]\n"})
			}
		}
	}
	// the input ends in a read error instead of an end of input (complete piece, then EIO): that run has failed
	c.Stream("readerror", 8, func(i int, _ *rand.Rand) {
		cmds := [][]string{{"text", "parse"}, {"text", "conv", "syllable"}, {"text", "conv", "degree"}, {"text", "parse", "-"}, {"write"}, {"write", "event"}, {"write", "parse"}, {"write", "conv", "-c", "cmt"}}
		in := "C[1] Am7/G[2]\nR[1] F[1]\n"
		if i == 2 {
			in = "1[1] 6m7/5[2]\nR[1] 4[1]\n"
		}
		if i >= 4 {
			in = "- chord: {degree: \"1\", name: \"m7\"}\n  values: [1]\n- values: [2]\n"
		}
		res := c.Crd.Run(runner.Opt{Stdin: []byte(in), StdinKind: "eio"}, cmds[i]...)
		name := strings.Join(cmds[i], " ") + " (input ends in a read error)"
		if res.StartErr != nil {
			c.Inconclusive("no pseudo terminal available: " + res.StartErr.Error())
			return
		}
		if !judgeOutcome(c, "readerror", i, name, res, map[string]any{"input": in}) {
			return
		}
		if res.OK() {
			c.Violate("readerror", i, "readerror:success:"+strings.Join(cmds[i][:2], " "), fmt.Sprintf("`crd %s`: reading the input failed with an I/O error after %d bytes, yet the command reports success", strings.Join(cmds[i], " "), len(in)), map[string]any{"run": obs(res)})
			return
		}
		c.Nontrivial("readerror|" + name)
	})
	c.Stream("edges", len(edges), func(i int, _ *rand.Rand) {
		e := edges[i]
		res := c.Crd.Run(runner.Opt{Stdin: []byte(e.stdin), CPUSec: 60}, e.args...)
		if judgeOutcome(c, "edges", i, strings.Join(e.args, " "), res, map[string]any{"stdin": e.stdin}) {
			c.Nontrivial("edge|" + strings.Join(e.args, " ") + "|" + e.stdin)
		}
	})

	// ---------------- (3) nonsense catalogue
	nonsenseCatalogue(c)
}

var bigCPU int64

func maxInt64(p *int64, v int64) int64 {
	if v > *p {
		*p = v
	}
	return *p
}

func hashBytes(b []byte) uint32 {
	var h uint32 = 2166136261
	for _, x := range b {
		h ^= uint32(x)
		h *= 16777619
	}
	return h
}

var flagValues = []string{"", "0", "1", "-1", "9223372036854775807", "18446744073709551616", "1e9", "abc", "1/0", "0/4", "4/", "/", "4/4/4", "G#", "c", "H", "Cmaj", "xC", "Cm ", strings.Repeat("z", 300), "日本", "-", "--", "/nonexistent/file", "/", "/proc/self/mem", "C", "Am", "4/4", "120", "ff", "pp,ff", "3.5", "0x10", "+5", " 7"}

type flagCmd struct {
	cmd   []string
	flags []string
	stdin []byte
}

func flagFuzz(c *core.Ctx) {
	doc := model.Piece{Inst: []model.Instance{{Chord: &model.ChordSpec{Deg: theory.Interval{N: 1, Q: theory.Perfect}, Symbol: "m7"}, Values: one()}, {Values: one()}}}.YAML(model.YAMLStyle{})
	text := []byte("C[1] Am7/G[2]{txt=x} R[1]")
	writeFlags := []string{"--bpm", "--velocity", "--meter", "--key", "-k", "--track", "--instrument", "--program", "--attr", "--chord", "-o", "--output"}
	cmds := []flagCmd{
		{[]string{"write"}, writeFlags, doc},
		{[]string{"write", "event"}, writeFlags, doc},
		{[]string{"write", "parse"}, writeFlags, doc},
		{[]string{"write", "conv"}, append([]string{"-c", "--command"}, writeFlags...), doc},
		{[]string{"write", "play"}, []string{"-p", "--port", "--bpm", "--key"}, doc},
		// the same flags on a document without instances: nothing to override, and nothing to index
		{[]string{"write", "parse"}, writeFlags, []byte("[]\n")},
		{[]string{"write", "conv", "-c", "cmt"}, writeFlags, []byte("# nothing yet\n")},
		{[]string{"write"}, writeFlags, []byte("")},
		{[]string{"text", "parse"}, []string{"-o", "--attr", "--chord"}, text},
		{[]string{"text", "conv", "degree"}, []string{"-o"}, []byte("1[1] 5_7[1]")},
		{[]string{"text", "conv", "syllable"}, []string{"--key", "-k", "-o"}, text},
		{[]string{"info", "attr", "list"}, []string{"--attr", "-o"}, nil},
		{[]string{"info", "attr", "describe"}, []string{"-t", "--target", "-r", "--root", "--attr", "-o"}, nil},
		{[]string{"info", "chord", "list"}, []string{"--chord", "-o"}, nil},
		{[]string{"info", "chord", "describe"}, []string{"-t", "--target", "--chord", "--attr", "-o"}, nil},
		{[]string{"info", "key", "list"}, []string{"--key", "-o"}, nil},
		{[]string{"info", "key", "describe"}, []string{"--key", "-k", "-o"}, nil},
		{[]string{"info", "key", "conv"}, []string{"--key", "-k", "-c", "--command", "-o"}, nil},
		{[]string{"gen", "attr"}, []string{"-d", "--maxDegree", "-o"}, nil},
		{[]string{"midi", "port", "in"}, nil, nil},
		{[]string{"midi", "port", "out"}, nil, nil},
	}
	type fcase struct {
		fc   flagCmd
		args []string
	}
	var cases []fcase
	for _, fc := range cmds {
		for _, fl := range fc.flags {
			for _, v := range flagValues {
				if (fl == "-d" || fl == "--maxDegree") && len(v) > 6 {
					continue // work proportional to a requested size is not a hang
				}
				if (fl == "-o" || fl == "--output") && (v == "/proc/self/mem" || v == "-" || v == "--") {
					continue
				}
				cases = append(cases, fcase{fc, []string{fl, v}})
				if strings.HasPrefix(fl, "--") {
					cases = append(cases, fcase{fc, []string{fl + "=" + v}})
				}
			}
		}
		// boolean and structural variations
		for _, extra := range [][]string{{"--debug"}, {"--nosuchflag"}, {"-s"}, {"nosuchsub"}, {"a", "b"}, {"/nonexistent/file"}, {"/"}, {"-"}, {"--help"}, {"-h"}, {"--debug", "--debug=false"}, {"--", "-x"}} {
			cases = append(cases, fcase{fc, extra})
		}
	}
	// unknown commands at every level
	for _, a := range [][]string{{}, {"nosuch"}, {"text"}, {"text", "nosuch"}, {"text", "conv"}, {"text", "conv", "nosuch"}, {"write", "nosuch"}, {"info"}, {"info", "key"}, {"info", "nosuch"}, {"gen"}, {"midi"}, {"midi", "port"}, {"completion", "bash"}, {"help"}, {"help", "write"}, {"--debug"}, {"-o"}, {"-o", ""}} {
		cases = append(cases, fcase{flagCmd{cmd: a}, nil})
	}
	c.Extra("flag_cases", len(cases))
	step := 1
	if c.Quick() {
		step = 3
	}
	c.Stream("flags", (len(cases)+step-1)/step, func(k int, r *rand.Rand) {
		i := k * step
		if c.Quick() {
			i += r.Intn(step)
			if i >= len(cases) {
				i = len(cases) - 1
			}
		}
		fcs := cases[i]
		args := append(append([]string{}, fcs.fc.cmd...), fcs.args...)
		// -o with a concrete writable path would litter: redirect relative values into the scratch dir
		opt := runner.Opt{Stdin: fcs.fc.stdin, Dir: c.Scratch.Dir}
		if opt.Stdin == nil {
			opt.Stdin = []byte{}
		}
		res := c.Crd.Run(opt, args...)
		name := strings.Join(fcs.fc.cmd, " ")
		fl := ""
		if len(fcs.args) > 0 {
			fl = fcs.args[0]
			if j := strings.Index(fl, "="); j > 0 {
				fl = fl[:j]
			}
		}
		// --debug legitimately changes stderr only; stdout-on-failure with --debug is judged like any other run
		if judgeOutcome(c, "flags", k, name+" "+fl, res, map[string]any{"argv": runner.ShellQuote(args)}) {
			oc := "ok"
			if res.Exit != 0 {
				oc = "refused"
			}
			c.Nontrivial(fmt.Sprintf("flags|%s|%s|%s", name, strings.Join(fcs.args, " "), oc))
		}
	})
}

// nonsense item through three kinds of channel
type nonsense struct {
	name  string
	text  []string   // chord texts (through text conv degree/syllable, then write)
	yaml  []string   // instance documents (through write, write event, write parse, write conv)
	flags [][]string // argv tails for `write` on a valid document
	cmds  [][]string // complete argv of other commands that must fail
}

func nonsenseCatalogue(c *core.Ctx) {
	chordY := func(extra string) string {
		return "- chord: {degree: \"1\", name: \"\"}\n  values: [\"1\"]\n" + extra
	}
	var items []nonsense
	items = append(items,
		nonsense{name: "duration zero", text: []string{"C[0]", "1[0]", "C[1] R[0]", "C[0/4]", "C[1,0]"}, yaml: []string{"- chord: {degree: \"1\", name: \"\"}\n  values: [\"0\"]\n", "- values: [0]\n- chord: {degree: \"1\", name: \"\"}\n  values: [1]\n", "- chord: {degree: \"1\", name: \"\"}\n  values: [\"1\", \"0/3\"]\n"}},
		nonsense{name: "zero denominator", text: []string{"C[1/0]", "R[3/0] C[1]", "1[1,2/0]"}, yaml: []string{"- chord: {degree: \"1\", name: \"\"}\n  values: [\"1/0\"]\n", "- values: [\"0/0\"]\n"}},
		nonsense{name: "instance without durations", yaml: []string{"- chord: {degree: \"1\", name: \"\"}\n", "- chord: {degree: \"1\", name: \"\"}\n  values: []\n", "- chord: {degree: \"1\", name: \"\"}\n  values: null\n", chordY("- bpm: 120\n"), chordY("- {}\n")}},
		nonsense{name: "tempo zero", text: []string{"C[1]{bpm=0}", "C[1] R[1]{bpm=0}", "1[1]{bpm=00}", "C[1]{bpm=120,bpm=0}", "1[1] R[1]{bpm=90,txt=x,bpm=0}"}, yaml: []string{chordY("  bpm: 0\n"), chordY("- values: [1]\n  bpm: 0\n"), chordY("  bpm: \"0\"\n")}},
		nonsense{name: "unknown dynamic", text: []string{"C[1]{vel=xx}", "C[1]{vel=fff}", "C[1]{vel=F}", "1[1] R[1]{vel=mpp}", "C[1]{vel=ff,vel=zzz}", "1[1]{vel=p,vel=}"}, yaml: []string{chordY("  velocity: xx\n"), chordY("  velocity: fff\n"), chordY("- values: [1]\n  velocity: \"\"\n"), chordY("  velocity: PP\n")}, flags: [][]string{{"--velocity", "xx"}, {"--velocity", "fff"}, {"--velocity", "F"}, {"--velocity=mpp"}}},
		nonsense{name: "unknown chord symbol", text: []string{"Cfoo[1]", "C_77[1]", "1_nosuch[1]", "C[1] Dm7[1] Emin7[1]", "11[1] 1_1[1]", "1m/3[1] 1_m/3x[1]"}, yaml: []string{
			// behind a valid chord that spells the same characters when degree, symbol and bass are run together
			"- chord: {degree: \"11\", name: \"\"}\n  values: [1]\n- chord: {degree: \"1\", name: \"1\"}\n  values: [1]\n",
			"- chord: {degree: \"1\", name: m, base: \"3\"}\n  values: [1]\n- chord: {degree: \"1\", name: \"m/3\"}\n  values: [1]\n",
			"- chord: {degree: \"1\", name: \"7\"}\n  values: [1]\n- chord: {degree: \"17\", name: \"\"}\n  values: [1]\n- chord: {degree: \"1\", name: \"77\"}\n  values: [1]\n- chord: {degree: \"17\", name: \"7x\"}\n  values: [1]\n", "- chord: {degree: \"1\", name: \"foo\"}\n  values: [\"1\"]\n",
			// a symbol with the underscore of the chord text in front of it is not that symbol
			"- chord: {degree: \"1\", name: \"_7\"}\n  values: [1]\n", "- chord: {degree: \"5\", name: \"_\"}\n  values: [1]\n", "- chord: {degree: \"2\", name: \"_m7\"}\n  values: [1]\n- chord: {degree: \"5\", name: \"7\"}\n  values: [1]\n", "- chord: {degree: \"1\", name: \"_DominantSeventh\"}\n  values: [1]\n", "- chord: {degree: \"1\", name: \" 7\"}\n  values: [1]\n", "- chord: {degree: \"1\", name: \"7 \"}\n  values: [1]\n", "- chord: {degree: \"1\", name: \"M\"}\n  values: [\"1\"]\n", chordY("- chord: {degree: \"5\", name: \"minorseventh\"}\n  values: [1]\n")},
			cmds: [][]string{{"info", "chord", "describe", "-t", "Cfoo"}, {"info", "chord", "describe", "-t", "C_77"}, {"info", "attr", "describe", "-t", "Major99"}, {"info", "attr", "describe", "-t", ""}}},
		nonsense{name: "unknown modifier command", cmds: [][]string{{"write", "conv", "-c", "xyz"}, {"write", "conv", "-c", "cmt,xyz"}, {"write", "conv", "-c", "CMT"}, {"write", "conv"}, {"write", "conv", "-c", ""}}},
		nonsense{name: "mixed notation", text: []string{"C[1] 2[1]", "1[1] D[1]", "C/2[1]", "1/E[1]", "C[1] R[1] 5_7[1]"},
			cmds: [][]string{{"info", "chord", "describe", "-t", "C/3"}, {"info", "chord", "describe", "-t", "C_7/3"}, {"info", "chord", "describe", "--target=C#m/5b", "-s"}, {"info", "chord", "describe", "-t", "Am/1"},
				{"info", "chord", "describe", "-t", "G/99999999999999999999"}, {"info", "chord", "describe", "-t", "1/E"}, {"info", "chord", "describe", "-t", "Bbm7/b7"}}},
		nonsense{name: "empty piece", text: []string{"", " ", "\n\n", ";only a comment\n", ";c"}, yaml: []string{"", "[]\n", "null\n", "~\n", "---\n", "# nothing\n", "{}\n"}},
	)
	// keys without a scale
	var noScale []string
	for _, k := range theory.AllKeySpellings() {
		// keys that cannot have a scale with single accidentals (more than 7 sharps or flats); A#m and Abm
		// (7 sharps / 7 flats) are not in today's table but could legitimately be added, so they are not nonsense
		if kk, err := theory.ParseKey(k); err == nil && !theory.IsSupported(k) && (kk.Signature() > 7 || kk.Signature() < -7) {
			noScale = append(noScale, k)
		}
	}
	malformed := []string{"H", "c", "Cmaj", "xC", "C##", "Cbb", "Cmm", "Cm7", "do", "1", "C♯", "C ", "C#mm", "AmAm"}
	keyItem := nonsense{name: "key without a scale"}
	for _, k := range append(append([]string{}, noScale...), malformed...) {
		if !strings.ContainsAny(k, " ") {
			keyItem.text = append(keyItem.text, "C[1]{key="+k+"}", "1[1] 2[1]{key="+k+"}")
		}
		keyItem.yaml = append(keyItem.yaml, chordY("  key: "+jq(k)+"\n"), chordY("- values: [1]\n  key: "+jq(k)+"\n"))
		if !strings.ContainsAny(k, " ") {
			keyItem.text = append(keyItem.text, "C[1]{key=C,key="+k+"}")
		}
		keyItem.flags = append(keyItem.flags, []string{"--key", k})
		keyItem.cmds = append(keyItem.cmds, []string{"info", "key", "describe", "--key", k}, []string{"info", "key", "conv", "--key", k, "-c", "d"}, []string{"text", "conv", "syllable", "--key", k})
	}
	// the same spellings right after their valid enharmonic twin (G# after Ab, Fb after E, A#m after Bbm ...): what
	// is in force before must not make a key acceptable that has no scale
	twinItem := nonsense{name: "key without a scale after its enharmonic twin"}
	for _, k := range noScale {
		kk, _ := theory.ParseKey(k)
		for _, o := range theory.Supported() {
			if o.Minor != kk.Minor || (o.TonicOffset()-kk.TonicOffset())%12 != 0 {
				continue
			}
			tw := o.String()
			twinItem.text = append(twinItem.text, o.Tonic.String()+"[1]{key="+tw+"} "+o.Tonic.String()+"[1]{key="+k+"}", "R[1]{key="+tw+"} R[1]{key="+k+"} C[1]")
			twinItem.yaml = append(twinItem.yaml,
				"- chord: {degree: \"1\", name: \"\"}\n  values: [\"1\"]\n  key: "+jq(tw)+"\n- chord: {degree: \"5\", name: \"7\"}\n  values: [1]\n  key: "+jq(k)+"\n",
				"- values: [1]\n  key: "+jq(tw)+"\n- values: [1]\n  key: "+jq(k)+"\n- chord: {degree: \"1\", name: \"\"}\n  values: [1]\n")
			twinItem.cmds = append(twinItem.cmds, []string{"write", "--key", tw, "KEYDOC:" + k}, []string{"write", "event", "-k", tw, "KEYDOC:" + k}, []string{"text", "conv", "syllable", "--key", tw, "KEYTEXT:" + k})
		}
	}
	items = append(items, keyItem, twinItem)

	validDoc := []byte(chordY(""))
	type ncase struct {
		item    string
		channel string
		payload string
		argv    []string
	}
	var cases []ncase
	for _, it := range items {
		for _, t := range it.text {
			cases = append(cases, ncase{it.name, "text", t, nil})
		}
		for _, y := range it.yaml {
			for _, cmd := range [][]string{{"write"}, {"write", "event"}, {"write", "--track", "2", "-o"}} {
				cases = append(cases, ncase{it.name, "yaml", y, cmd})
			}
		}
		for _, f := range it.flags {
			cases = append(cases, ncase{it.name, "flag", "", append([]string{"write"}, f...)})
			cases = append(cases, ncase{it.name, "flag", "", append([]string{"write", "event"}, f...)})
		}
		for _, a := range it.cmds {
			cases = append(cases, ncase{it.name, "command", "", a})
		}
	}
	// the same nonsense at the end of a long piece: by then far more than any output buffer has been converted
	for _, it := range items {
		if it.name == "empty piece" {
			continue
		}
		for k, t := range it.text {
			if k >= 2 {
				break
			}
			cases = append(cases, ncase{it.name, "longtext", t, nil})
		}
	}
	// ... and at the beginning of a long piece: the command that meets it first stops there, with hundreds of chords
	// still to come (whatever walks the rest of the piece must not be left waiting)
	for _, it := range items {
		if it.name == "empty piece" {
			continue
		}
		for k, t := range it.text {
			if k >= 2 {
				break
			}
			cases = append(cases, ncase{it.name, "earlytext", t, nil})
		}
	}
	// two kinds of nonsense at once: every bad command line on every empty document. (`write parse` and
	// `write conv` do not have to refuse an empty document by themselves, but nonsense in a flag value is
	// nonsense whether or not there is a first instance to take the override: F-43.)
	emptyDocs := []string{"", "[]\n", "# nothing\n", "null\n", "---\n"}
	for _, bad := range [][]string{{"write", "conv", "-c", "bogus"}, {"write", "conv", "-c", "cmt,bogus"}, {"write", "conv"}, {"write", "--velocity", "xx"}, {"write", "--key", "G#"}, {"write", "event", "--meter", "4/0"}, {"write", "--track", "0"},
		{"write", "parse", "--velocity", "xx"}, {"write", "parse", "--key", "H"}, {"write", "parse", "-k", "Cmm"}, {"write", "parse", "--meter", "4/0"}, {"write", "parse", "--meter=0/4"},
		{"write", "conv", "-c", "cmt", "--velocity", "fff"}, {"write", "conv", "-c", "cmt", "--key", "Cmaj"}, {"write", "conv", "-c", "cmt", "--meter", "x"}} {
		for _, d := range emptyDocs {
			cases = append(cases, ncase{"bad command line on an empty piece", "yaml", d, bad})
		}
	}
	c.Extra("nonsense_cases", len(cases))
	isSMF := func(b []byte) bool {
		f, _ := decodeSMF(b)
		return f != nil
	}
	c.Stream("nonsense", len(cases), func(i int, r *rand.Rand) {
		nc := cases[i]
		sig := fmt.Sprintf("nonsense:%s:%s", nc.item, nc.channel)
		det := map[string]any{"item": nc.item, "channel": nc.channel, "payload": nc.payload}
		fail := func(kind, msg string, res *runner.Result) {
			c.Violate("nonsense", i, sig+":"+kind, fmt.Sprintf("%s (%s channel, %q): %s", nc.item, nc.channel, short(nc.payload+strings.Join(nc.argv, " "), 120), msg), mergeMaps(det, map[string]any{"run": obs(res)}))
		}
		switch nc.channel {
		case "text":
			// classify the notation to choose the converter(s)
			convs := [][]string{{"text", "conv", "degree"}, {"text", "conv", "syllable"}}
			refusedSomewhere := 0
			for _, cv := range convs {
				r1 := c.Crd.Run(runner.Opt{Stdin: []byte(nc.payload)}, cv...)
				if !judgeOutcome(c, "nonsense", i, strings.Join(cv, " "), r1, det) {
					return
				}
				if !r1.OK() {
					refusedSomewhere++
					continue
				}
				// passed on: the next stage has to refuse, and nothing may become a MIDI file
				r2 := c.Crd.Run(runner.Opt{Stdin: r1.Stdout}, "write")
				if !judgeOutcome(c, "nonsense", i, "write", r2, det) {
					return
				}
				if r2.OK() || isSMF(r2.Stdout) {
					fail("reaches-midi", fmt.Sprintf("`crd %s | crd write` ends in a MIDI file", strings.Join(cv, " ")), r2)
					return
				}
				refusedSomewhere++
			}
			c.Nontrivial(fmt.Sprintf("%s|text|%s", nc.item, nc.payload))
		case "longtext", "earlytext":
			unit := "C[1]{lic=la la la la la la la la}\n"
			if ru := strings.TrimLeft(nc.payload, " "); ru != "" && ru[0] >= '0' && ru[0] <= '9' {
				unit = "1[1]{lic=la la la la la la la la}\n"
			}
			text := strings.Repeat(unit, 1500+r.Intn(2500)) + nc.payload
			if nc.channel == "earlytext" {
				text = strings.Repeat(unit, r.Intn(3)) + nc.payload + "\n" + strings.Repeat(unit, 200+r.Intn(800))
			}
			for _, cv := range [][]string{{"text", "conv", "degree"}, {"text", "conv", "syllable"}} {
				r1 := c.Crd.Run(runner.Opt{Stdin: []byte(text)}, cv...)
				if !judgeOutcome(c, "nonsense", i, strings.Join(cv, " ")+" (long piece)", r1, det) {
					return
				}
				if !r1.OK() {
					continue
				}
				r2 := c.Crd.Run(runner.Opt{Stdin: r1.Stdout}, "write")
				if !judgeOutcome(c, "nonsense", i, "write (long piece)", r2, det) {
					return
				}
				if r2.OK() || isSMF(r2.Stdout) {
					fail("reaches-midi", fmt.Sprintf("`crd %s | crd write` ends in a MIDI file", strings.Join(cv, " ")), r2)
					return
				}
			}
			c.Nontrivial(fmt.Sprintf("%s|%s|%s", nc.item, nc.channel, nc.payload))
		case "yaml":
			args := append([]string{}, nc.argv...)
			var outPath string
			if args[len(args)-1] == "-o" {
				outPath = c.Scratch.Path("nonsense.mid")
				args = append(args, outPath)
			}
			res := c.Crd.Run(runner.Opt{Stdin: []byte(nc.payload)}, args...)
			if !judgeOutcome(c, "nonsense", i, strings.Join(nc.argv, " "), res, det) {
				return
			}
			if res.OK() {
				fail("accepted", fmt.Sprintf("`crd %s` accepts it", strings.Join(nc.argv, " ")), res)
				return
			}
			if len(nc.argv) == 1 && nc.argv[0] == "write" {
				// the same with the standard output on a terminal: nonsense is nonsense wherever the bytes would go
				rt := c.Crd.Run(runner.Opt{Stdin: []byte(nc.payload), StdoutKind: "pty"}, "write")
				if rt.StartErr == nil {
					if !judgeOutcome(c, "nonsense", i, "write (standard output on a terminal)", rt, det) {
						return
					}
					if rt.OK() {
						fail("accepted-on-terminal", "`crd write` with its standard output on a terminal accepts it (exit 0)", rt)
						return
					}
				}
			}
			if outPath != "" {
				if b, err := os.ReadFile(outPath); err == nil && isSMF(b) {
					fail("reaches-midi", "a MIDI file was written to -o although the command failed", res)
					return
				}
			}
			c.Nontrivial(fmt.Sprintf("%s|yaml|%s|%s", nc.item, strings.Join(nc.argv, " "), nc.payload))
		case "flag", "command":
			stdin := validDoc
			if nc.argv[0] == "text" {
				stdin = []byte("C[1]")
			}
			// a trailing KEYDOC:K / KEYTEXT:K stands for "the second instance states key K"
			if last := nc.argv[len(nc.argv)-1]; strings.HasPrefix(last, "KEYDOC:") {
				stdin = []byte(chordY("- values: [1]\n  key: " + jq(strings.TrimPrefix(last, "KEYDOC:")) + "\n"))
				nc.argv = nc.argv[:len(nc.argv)-1]
			} else if strings.HasPrefix(last, "KEYTEXT:") {
				stdin = []byte("C[1] R[1]{key=" + strings.TrimPrefix(last, "KEYTEXT:") + "} C[1]")
				nc.argv = nc.argv[:len(nc.argv)-1]
			}
			res := c.Crd.Run(runner.Opt{Stdin: stdin}, nc.argv...)
			if !judgeOutcome(c, "nonsense", i, strings.Join(nc.argv[:min(3, len(nc.argv))], " "), res, det) {
				return
			}
			if res.OK() {
				fail("accepted", fmt.Sprintf("`crd %s` accepts it", strings.Join(nc.argv, " ")), res)
				return
			}
			c.Nontrivial(fmt.Sprintf("%s|%s|%s", nc.item, nc.channel, strings.Join(nc.argv, " ")))
		}
		c.Seen("nonsense_items", nc.item)
	})

	// a flag left at / set to its zero value means "no override": same bytes as without the flag
	c.StreamSeq("no-override", 1, func(_ int, _ *rand.Rand) {
		base := c.Crd.Run(runner.Opt{Stdin: validDoc}, "write")
		c.Eval(1)
		for _, a := range [][]string{{"--bpm", "0"}, {"--velocity", ""}, {"--meter", ""}, {"--key", ""}, {"--bpm=0", "--key="}} {
			res := c.Crd.Run(runner.Opt{Stdin: validDoc}, append([]string{"write"}, a...)...)
			c.Eval(1)
			if !res.OK() || !bytes.Equal(res.Stdout, base.Stdout) {
				c.Violate("no-override", 0, "no-override:"+a[0], fmt.Sprintf("`crd write %s` (flag at its zero value) does not behave like no flag", strings.Join(a, " ")), obs(res))
			} else {
				c.Nontrivial("no-override:" + strings.Join(a, " "))
			}
		}
	})
}
