package main

import (
	"bytes"
	"fmt"
	"math/rand"
	"os"
	"path/filepath"
	"strconv"
	"strings"
	"syscall"
	"verif/runner"

	"verif/core"
	"verif/model"
	"verif/smfdec"
	"verif/theory"
)

func init() { register("C08", checkC08) }

// judgeWellFormed judges one successful write; refusals are counted, not judged.
func judgeWellFormed(c *core.Ctx, stream string, idx int, p model.Piece, f model.Flags, o writeOpts, class string) {
	r, out := playPiece(c, p, f, o)
	if infra(c, r) {
		return
	}
	sig := fmt.Sprintf("%s#%d", stream, idx)
	if class != "" {
		sig = class
	}
	if a := abnormal(r); a != "" {
		c.Violate(stream, idx, sig+":abnormal", "crd write "+a, withYAML(obs(r), p))
		return
	}
	if !r.OK() {
		c.Count("refused", 1)
		if o.outFile && len(out) > 0 {
			if _, derr := decodeSMF(out); derr == "" {
				c.Violate(stream, idx, sig+":file-after-refusal", "crd write failed but left a complete MIDI file behind in -o", withYAML(obs(r), p))
			}
		}
		return
	}
	file, derr := decodeSMF(out)
	if file == nil {
		c.Violate(stream, idx, sig+":malformed", "successful crd write produced bytes that are not a well-formed Standard MIDI File: "+derr, withYAML(obs(r), p))
		return
	}
	if probs := smfdec.Structural(file, f.Tracks()); len(probs) > 0 {
		c.Violate(stream, idx, sig+":structure", strings.Join(probs[:min(3, len(probs))], "; "), withYAML(pieceDesc(p, f), p))
		return
	}
	c.Count("files_decoded", 1)
	n := 0
	for _, t := range file.Tracks {
		n += len(t.Events)
	}
	c.Count("events_decoded", n)
	c.Seen("track_counts", fmt.Sprint(f.Tracks()))
	if c.WantSample() {
		d := pieceDesc(p, f)
		d["file_bytes"] = len(out)
		d["events"] = n
		c.Sample(d)
	}
	if f.Tracks() > 1 || len(p.Inst) > 3 {
		c.Nontrivial(sig + fmt.Sprint(idx))
	}
}

func checkC08(c *core.Ctx) {
	c.Rule("every file produced by a successful `crd write` (stdout or -o) is pushed through a strict SMF 1.0 decoder written from the specification plus pairing/format/first-track checks: " +
		"(a) pieces from the generators of the other write checks on an own seed stream, (b) dedicated pieces x track counts 1..64 x instrument strings x program numbers x long texts x chords striking one key twice, (b2) chords above the MIDI range (degrees 16..115) and chords of 0 ticks, (c) probes just outside the representable domain (>= 2^28 ticks, huge track counts) where refusal or a well-formed file are both fine; " +
		"non-trivial = decoded file with more than one track or more than 3 instances; distinct by case")
	c.Assume("smfdec implements SMF 1.0 strictly: chunk lengths, VLQ <= 4 bytes, running status, data bytes < 128, one end-of-track per track and last", "only successful runs are judged")

	c.Stream("borrowed", c.N(3000, 80000), func(i int, r *rand.Rand) {
		var p model.Piece
		switch i % 3 {
		case 0:
			p = model.RandPiece(r, model.GenOpts{MinLen: 1, MaxLen: 12, RestProb: 0.2, SettingProb: 0.15, TextProb: 0.1, KeyChanges: true, BassProb: 0.5, Tiny: true})
		case 1:
			p = genTrackPiece(r, 12)
		default:
			p = model.RandPiece(r, model.GenOpts{MinLen: 1, MaxLen: 10, RestProb: 0.3, SettingProb: 0.3, TextProb: 0.3, KeyChanges: true, MaxDeg: 9, Halfway: true})
		}
		var f model.Flags
		if r.Intn(2) == 0 {
			f.Track = 1 + r.Intn(8)
		}
		if !p.Effective(f).AllInRange() || !p.TotalBelow(960, 1<<28) {
			return
		}
		judgeWellFormed(c, "borrowed", i, p, f, randWriteOpts(r), "")
	})

	instruments := []string{"", "x", "Piano", strings.Repeat("i", 127), strings.Repeat("j", 128), strings.Repeat("k", 300), "ピアノ", "a b", "-dash", "é", strings.Repeat("long", 5000),
		"Drums", "Standard Drum Kit", "steel drums", "Percussion", "Bass", "Synth Lead", "Violin", "Acoustic Grand Piano", "channel 10", "10", "GM", "organ"}
	c.Stream("dedicated", c.N(2500, 60000), func(i int, r *rand.Rand) {
		p := model.RandPiece(r, model.GenOpts{MinLen: 1, MaxLen: 8, RestProb: 0.25, SettingProb: 0.2, TextProb: 0.4, KeyChanges: true, BassProb: 0.3, MaxDeg: 9, Tiny: i%3 == 0})
		// chords that strike one key twice: bass an octave above the root coincides with the root
		for j := range p.Inst {
			if p.Inst[j].Chord != nil && r.Intn(4) == 0 {
				b := theory.Interval{N: 8, Q: theory.Perfect}
				p.Inst[j].Chord.Bass = &b
			}
			if r.Intn(6) == 0 {
				if p.Inst[j].Meta == nil {
					p.Inst[j].Meta = map[string]string{}
				}
				p.Inst[j].Meta["txt"] = strings.Repeat("t", []int{127, 128, 129, 16383, 16384, 20000}[r.Intn(6)])
			}
		}
		// dynamics written as numbers (crd may refuse them; whatever it accepts must still give paired notes)
		if r.Intn(8) == 0 {
			p.Inst[r.Intn(len(p.Inst))].Velocity = []string{"0", "\"0\"", "00", "1", "64", "127", "128", "255", "-1", "0x40", "0.5"}[r.Intn(11)]
		}
		var f model.Flags
		f.Track = []int{1, 2, 3, 4, 5, 7, 8, 15, 16, 17, 31, 32, 33, 63, 64}[r.Intn(15)]
		if r.Intn(2) == 0 {
			s := instruments[r.Intn(len(instruments))]
			f.Instr = &s
		}
		if r.Intn(2) == 0 {
			pg := r.Intn(256)
			f.Program = &pg
		}
		if !p.Effective(f).AllInRange() {
			return
		}
		class := ""
		if f.Program != nil && *f.Program > 127 {
			class = fmt.Sprintf("program=%d", *f.Program)
		}
		o := randWriteOpts(r)
		switch r.Intn(6) {
		case 0:
			o.extra = append(o.extra, "--debug") // logging must stay off the output
		case 1:
			// any value of the dynamics flag: accepted ones must give a well-formed file, others are refused
			o.extra = append(o.extra, "--velocity", []string{"pp", "p", "mp", "mf", "f", "ff", "fff", "F", "m", "0", "ppp"}[r.Intn(11)])
		case 2:
			o.extra = append(o.extra, "--bpm", fmt.Sprint(model.RandBPM(r)), "--meter", []string{"3/4", "7/8", "12/16", "1/1", "255/128"}[r.Intn(5)])
		}
		judgeWellFormed(c, "dedicated", i, p, f, o, class)
	})

	// boundary probes
	type probe struct {
		name string
		p    model.Piece
		f    model.Flags
	}
	ch := func() *model.ChordSpec {
		return &model.ChordSpec{Deg: theory.Interval{N: 1, Q: theory.Perfect}, Symbol: "7"}
	}
	var probes []probe
	for _, beats := range []uint64{279620, 279621, 300000, 4473924, 4473925, 5000000, 1 << 40} {
		probes = append(probes, probe{fmt.Sprintf("chord-%d-beats", beats), model.Piece{Inst: []model.Instance{{Chord: ch(), Values: []model.Frac{{Num: beats, Den: 1}}}}}, model.Flags{}})
		probes = append(probes, probe{fmt.Sprintf("rest-%d-beats", beats), model.Piece{Inst: []model.Instance{{Values: []model.Frac{{Num: beats, Den: 1}}}, {Chord: ch(), Values: one()}}}, model.Flags{}})
		probes = append(probes, probe{fmt.Sprintf("trailing-rest-%d-beats", beats), model.Piece{Inst: []model.Instance{{Chord: ch(), Values: one()}, {Values: []model.Frac{{Num: beats, Den: 1}}}}}, model.Flags{}})
	}
	// an over-long silence whose delta time would land on a text event (text, lyric, marker of the next instance, on a
	// chord or on a rest), in one rest or accumulated over several, on one track and on several
	for _, kind := range []string{"txt", "lic", "mrk"} {
		for k, rests := range [][]uint64{{279621}, {300000}, {200000, 200000}, {100000, 100000, 100000}, {1 << 33}} {
			var in []model.Instance
			if k%2 == 1 {
				in = append(in, model.Instance{Chord: ch(), Values: one()})
			}
			for _, b := range rests {
				in = append(in, model.Instance{Values: []model.Frac{{Num: b, Den: 1}}})
			}
			withText := model.Instance{Chord: ch(), Values: one(), Meta: map[string]string{kind: "after the silence"}}
			if k >= 3 {
				withText.Chord = nil
			}
			in = append(in, withText, model.Instance{Chord: ch(), Values: one()})
			probes = append(probes, probe{fmt.Sprintf("silence-%v-beats-before-%s", rests, kind), model.Piece{Inst: in}, model.Flags{}})
			probes = append(probes, probe{fmt.Sprintf("silence-%v-beats-before-%s-track%d", rests, kind, 2+k), model.Piece{Inst: in}, model.Flags{Track: 2 + k}})
		}
	}
	// many long instances: each delta small, the total beyond 2^28 (legal for a file: only single deltas are bounded)
	{
		var p model.Piece
		for i := 0; i < 40; i++ {
			p.Inst = append(p.Inst, model.Instance{Chord: ch(), Values: []model.Frac{{Num: 10000, Den: 1}}})
		}
		probes = append(probes, probe{"total-over-2^28", p, model.Flags{}})
	}
	// deltas that only become too long by accumulation (consecutive rests, idle tracks of a long piece)
	for _, k := range []int{2, 3, 5, 17} {
		var rests []model.Instance
		for i := 0; i < k; i++ {
			rests = append(rests, model.Instance{Values: []model.Frac{{Num: 200000, Den: 1}}})
		}
		mid := append(append([]model.Instance{{Chord: ch(), Values: one()}}, rests...), model.Instance{Chord: ch(), Values: one()})
		probes = append(probes, probe{fmt.Sprintf("%d-consecutive-rests-of-200000-beats", k), model.Piece{Inst: mid}, model.Flags{}})
		probes = append(probes, probe{fmt.Sprintf("%d-consecutive-rests-of-200000-beats-track3", k), model.Piece{Inst: mid}, model.Flags{Track: 3}})
		probes = append(probes, probe{fmt.Sprintf("%d-trailing-rests-of-200000-beats", k), model.Piece{Inst: append([]model.Instance{{Chord: ch(), Values: one()}}, rests...)}, model.Flags{Track: 2}})
	}
	// a note track that idles beyond 2^28 ticks while the first track stays busy with meta events on the rests
	for _, kind := range []string{"txt", "bpm", "key", "mrk"} {
		for _, n := range []int{2, 3, 5} {
			mk := func() model.Instance {
				in := model.Instance{Values: []model.Frac{{Num: 200000, Den: 1}}}
				switch kind {
				case "bpm":
					in.BPM = 90
				case "key":
					in.Key = "G"
				default:
					in.Meta = map[string]string{kind: "still waiting"}
				}
				return in
			}
			probes = append(probes, probe{fmt.Sprintf("busy-first-track-%s-track%d", kind, n), model.Piece{Inst: []model.Instance{{Chord: ch(), Values: one()}, mk(), mk(), {Chord: ch(), Values: one()}}}, model.Flags{Track: n}})
			probes = append(probes, probe{fmt.Sprintf("busy-first-track-%s-trailing-track%d", kind, n), model.Piece{Inst: []model.Instance{{Chord: ch(), Values: one()}, mk(), mk(), mk()}}, model.Flags{Track: n}})
		}
	}
	{
		var p model.Piece
		for i := 0; i < 40; i++ {
			p.Inst = append(p.Inst, model.Instance{Chord: ch(), Values: []model.Frac{{Num: 10000, Den: 1}}})
		}
		for _, n := range []int{2, 8, 32} {
			probes = append(probes, probe{fmt.Sprintf("total-over-2^28-track%d", n), p, model.Flags{Track: n}})
		}
	}
	for _, n := range []int{127, 128, 255, 256, 1000, 65535, 65536, 65537} {
		probes = append(probes, probe{fmt.Sprintf("track-%d", n), model.Piece{Inst: []model.Instance{{Chord: ch(), Values: one()}, {Values: one()}, {Chord: ch(), Values: one()}}}, model.Flags{Track: n}})
	}
	// the -o file may exist already (longer, from an earlier run): the new file must still be well-formed
	c.Stream("overwrite", c.N(60, 600), func(i int, r *rand.Rand) {
		long := model.RandPiece(r, model.GenOpts{MinLen: 12, MaxLen: 20, RestProb: 0.1, SettingProb: 0.2, TextProb: 0.5, KeyChanges: true, MaxDeg: 7})
		shortp := model.RandPiece(r, model.GenOpts{MinLen: 1, MaxLen: 2, RestProb: 0.1, MaxDeg: 7, NoSettings: true})
		if !long.Effective(model.Flags{}).AllInRange() || !shortp.Effective(model.Flags{}).AllInRange() {
			return
		}
		f := model.Flags{Track: 1 + r.Intn(3)}
		path := c.Scratch.Path("reused.mid")
		if i%3 == 1 {
			// -o names a symbolic link (latest.mid -> takes/take7.mid): the file behind it is replaced as a whole
			dir := c.Scratch.Path("takes")
			os.MkdirAll(dir, 0o755)
			os.Remove(filepath.Join(dir, "take7.mid"))
			os.Remove(filepath.Join(dir, "latest.mid"))
			os.Symlink("take7.mid", filepath.Join(dir, "latest.mid"))
			path = filepath.Join(dir, "latest.mid")
		}
		for k, p := range []model.Piece{long, shortp} {
			args := append(append([]string{"write"}, f.Args()...), "-o", path)
			res := run(c, p.YAML(model.YAMLStyle{}), args...)
			c.Eval(1)
			if infra(c, res) {
				return
			}
			if a := abnormal(res); a != "" || !res.OK() {
				c.Violate("overwrite", i, "overwrite:failed", "crd write -o fails on a valid document "+a, withYAML(obs(res), p))
				return
			}
			b := readFileOrNil(path)
			file, derr := decodeSMF(b)
			if file == nil {
				c.Violate("overwrite", i, fmt.Sprintf("overwrite:malformed:run%d", k), fmt.Sprintf("crd write -o onto an existing file (run %d to the same path) leaves bytes that are not a well-formed MIDI file: %s", k+1, derr), withYAML(pieceDesc(p, f), p))
				return
			}
			if probs := smfdec.Structural(file, f.Tracks()); len(probs) > 0 {
				c.Violate("overwrite", i, "overwrite:structure", probs[0], withYAML(pieceDesc(p, f), p))
				return
			}
		}
		c.Nontrivial(fmt.Sprintf("overwrite%d", i))
	})

	// chords above the MIDI range (large compound degrees, high basses): whether crd refuses them or writes
	// something, what it writes must be a well-formed file with paired notes
	c.Stream("outofrange", c.N(300, 6000), func(i int, r *rand.Rand) {
		p := model.RandPiece(r, model.GenOpts{MinLen: 1, MaxLen: 6, RestProb: 0.2, SettingProb: 0.1, KeyChanges: true, BassProb: 0.3, MaxDeg: 9})
		hit := false
		for j := range p.Inst {
			if ch := p.Inst[j].Chord; ch != nil && (!hit || r.Intn(2) == 0) {
				n := 16 + r.Intn(100)
				q := theory.Major
				if k := (n - 1) % 7; k == 0 || k == 3 || k == 4 {
					q = theory.Perfect
				}
				ch.Deg = theory.Interval{N: n, Q: q}
				if r.Intn(3) == 0 {
					b := theory.Interval{N: 8 + 7*r.Intn(12), Q: theory.Perfect}
					ch.Bass = &b
				}
				hit = true
			}
		}
		if !hit {
			return
		}
		var f model.Flags
		if r.Intn(2) == 0 {
			f.Track = 1 + r.Intn(6)
		}
		judgeWellFormed(c, "outofrange", i, p, f, randWriteOpts(r), "outofrange")
	})

	// the output file cannot take the whole result (file size limit: the header fits, a later chunk does not):
	// either the run fails, or what it leaves is the complete, well-formed file
	c.Stream("sizelimit", c.N(40, 400), func(i int, r *rand.Rand) {
		n := 40 + r.Intn(400)
		p := model.RandPiece(r, model.GenOpts{MinLen: n, MaxLen: n, RestProb: 0.1, SettingProb: 0.05, TextProb: 0.3, KeyChanges: true, MaxDeg: 7})
		if !p.Effective(model.Flags{}).AllInRange() || !p.TotalBelow(960, 1<<28) {
			return
		}
		f := model.Flags{Track: []int{1, 2, 3, 5, 9}[r.Intn(5)]}
		doc := c.Scratch.File("big.yml", p.YAML(model.YAMLStyle{}))
		full := run(c, nil, append(append([]string{"write"}, f.Args()...), doc)...)
		c.Eval(1)
		if infra(c, full) || !full.OK() {
			return
		}
		blocks := 1 + r.Intn(max(1, len(full.Stdout)/512+2))
		path := c.Scratch.Path("limited.mid")
		var res *runner.Result
		if i%2 == 0 {
			res = c.Crd.Run(runner.Opt{Stdin: []byte{}, FileBlocks: blocks}, append(append([]string{"write"}, f.Args()...), "-o", path, doc)...)
		} else {
			res = c.Crd.Run(runner.Opt{Stdin: []byte{}, FileBlocks: blocks, Redirect: ">" + path}, append(append([]string{"write"}, f.Args()...), doc)...)
		}
		c.Eval(1)
		if infra(c, res) {
			return
		}
		det := mergeMaps(obs(res), map[string]any{"limit_bytes": blocks * 512, "full_bytes": len(full.Stdout), "tracks": f.Tracks(), "instances": n})
		if res.Signal == int(syscall.SIGXFSZ) {
			c.Count("killed_by_SIGXFSZ", 1) // the default action of the limit itself, not a crash of crd
			return
		}
		if a := abnormal(res); a != "" {
			c.Violate("sizelimit", i, "sizelimit:abnormal", "crd write under a file size limit "+a, det)
			return
		}
		got := readFileOrNil(path)
		if res.OK() && !bytes.Equal(got, full.Stdout) {
			_, derr := decodeSMF(got)
			c.Violate("sizelimit", i, "sizelimit:truncated-success", fmt.Sprintf("crd write reports success under a file size limit of %d bytes, but left %d of %d bytes (%s)", blocks*512, len(got), len(full.Stdout), derr), det)
			return
		}
		if res.OK() {
			c.Count("fits_under_limit", 1)
		} else {
			c.Count("refused_under_limit", 1)
			c.Nontrivial(fmt.Sprintf("sizelimit%d", i))
		}
	})

	// sizes a MIDI file cannot encode (thorough tier only: the documents have 0.3 to 4.5 GB): a meta text of 2^28
	// bytes needs a 5-byte length, a track chunk beyond 4 GiB does not fit its 32-bit length field. A successful run
	// would necessarily have written a malformed file, so these documents must be refused; one byte less is fine.
	if !c.Quick() {
		c.StreamSeq("sizes", 4, func(i int, _ *rand.Rand) {
			free := memAvailableMB()
			text := func(n int) []byte {
				return append(append([]byte("- values: [1]\n  meta:\n    txt: \""), bytes.Repeat([]byte("a"), n)...), []byte("\"\n")...)
			}
			var doc []byte
			var what string
			mustRefuse := true
			switch i {
			case 0:
				what, doc, mustRefuse = "a text of 2^28-1 bytes", text(1<<28-1), false
			case 1:
				what, doc = "a text of 2^28 bytes", text(1<<28)
			case 3:
				// the limit is about bytes: 89.5 million three-byte characters are more than 2^28 bytes
				what = "a text of 89,500,000 three-byte characters (268.5 MB)"
				doc = append(append([]byte("- values: [1]\n  meta:\n    lic: \""), bytes.Repeat([]byte("あ"), 89500000)...), []byte("\"\n")...)
			default:
				if free < 40000 {
					c.Extra("sizes_chunk_probe", fmt.Sprintf("skipped: %d MB of memory available, the probe needs about 25 GB", free))
					return
				}
				what = "17 texts of 2^28-1 bytes on one track (4.5 GB chunk)"
				doc = append([]byte("- values: [1]\n  meta: &m\n    txt: \""), bytes.Repeat([]byte("a"), 1<<28-1)...)
				doc = append(doc, []byte("\"\n")...)
				for k := 0; k < 16; k++ {
					doc = append(doc, []byte("- values: [1]\n  meta: *m\n")...)
				}
			}
			if free < 6000 {
				c.Extra("sizes_probe", fmt.Sprintf("skipped: only %d MB of memory available", free))
				return
			}
			res := c.Crd.Run(runner.Opt{Stdin: doc, CPUSec: 900, Redirect: ">/dev/null"}, "write")
			c.Eval(1)
			if infra(c, res) {
				return
			}
			det := map[string]any{"document_bytes": len(doc), "exit": res.Exit, "signal": res.Signal, "cpu_ms": res.CPUms, "stderr": short(string(res.Stderr), 300)}
			if a := abnormal(res); a != "" {
				c.Violate("sizes", i, "sizes:abnormal", fmt.Sprintf("crd write on %s %s", what, a), det)
				return
			}
			if mustRefuse && res.OK() {
				c.Violate("sizes", i, fmt.Sprintf("sizes:accepted:%d", i), fmt.Sprintf("crd write reports success on %s, which no MIDI file can encode", what), det)
				return
			}
			c.Seen("size_probes", fmt.Sprintf("%s -> exit %d", what, res.Exit))
			c.Nontrivial(fmt.Sprintf("sizes%d", i))
		})
	}

	// the largest delta a file can hold, to the tick: 2^28-1 ticks must come out as four bytes (or be refused), 2^28
	// and 2^28+1 can only be refused (round 10, C08-mutR10a: the limit written as 1 << 28)
	for _, ticks := range []uint64{1<<28 - 2, 1<<28 - 1, 1 << 28, 1<<28 + 1} {
		v := []model.Frac{{Num: ticks, Den: 960}}
		probes = append(probes, probe{fmt.Sprintf("chord-of-%d-ticks", ticks), model.Piece{Inst: []model.Instance{{Chord: ch(), Values: v}}}, model.Flags{}})
		probes = append(probes, probe{fmt.Sprintf("rest-of-%d-ticks", ticks), model.Piece{Inst: []model.Instance{{Values: v}, {Chord: ch(), Values: one()}}}, model.Flags{}})
		probes = append(probes, probe{fmt.Sprintf("trailing-rest-of-%d-ticks-track2", ticks), model.Piece{Inst: []model.Instance{{Chord: ch(), Values: one()}, {Values: v}}}, model.Flags{Track: 2}})
	}
	c.Stream("boundary", len(probes), func(i int, r *rand.Rand) {
		pr := probes[i]
		judgeWellFormed(c, "boundary", i, pr.p, pr.f, writeOpts{}, "boundary:"+pr.name)
		c.Seen("boundary_probes", pr.name)
	})
}

// memAvailableMB reads MemAvailable from /proc/meminfo (0 when unknown).
func memAvailableMB() int {
	b, err := os.ReadFile("/proc/meminfo")
	if err != nil {
		return 0
	}
	for _, l := range strings.Split(string(b), "\n") {
		if strings.HasPrefix(l, "MemAvailable:") {
			f := strings.Fields(l)
			if len(f) >= 2 {
				n, _ := strconv.Atoi(f[1])
				return n / 1024
			}
		}
	}
	return 0
}
