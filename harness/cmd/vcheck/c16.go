package main

import (
	"bytes"
	"fmt"
	"math/rand"
	"os"
	"path/filepath"
	"sort"
	"strings"

	"verif/core"
	"verif/model"
	"verif/runner"
	"verif/smfdec"
	"verif/theory"
)

func init() { register("C16", checkC16) }

// userChord is one entry of a generated dictionary.
type userChord struct {
	Name, Display string
	Attrs         []string
	Extends       string
}

type userAttr struct {
	Name   string
	Degree string // notation; "" = omitted
}

func chordsYAML(cs []userChord) []byte {
	var b strings.Builder
	for _, c := range cs {
		if c.Name != "\x00" {
			b.WriteString("- name: " + jq(c.Name) + "\n")
			b.WriteString("  meta:\n    display: " + jq(c.Display) + "\n")
		} else {
			b.WriteString("- meta:\n    display: " + jq(c.Display) + "\n")
		}
		if c.Extends != "" {
			b.WriteString("  extends: " + jq(c.Extends) + "\n")
		}
		// fields crd does not know (notes of the author) are none of its business
		if h := len(c.Name) + len(c.Display) + len(c.Attrs); c.Name != "\x00" && h%5 == 0 {
			b.WriteString("  description: \"a note by the author, not for crd\"\n  aliases: [x, y]\n")
		}
		if len(c.Attrs) > 0 {
			b.WriteString("  attributes:\n")
			for _, a := range c.Attrs {
				b.WriteString("    - " + jq(a) + "\n")
			}
		}
	}
	if len(cs) == 0 {
		return []byte("[]\n")
	}
	return []byte(b.String())
}

func attrsYAML(as []userAttr) []byte {
	var b strings.Builder
	for _, a := range as {
		if a.Name != "\x00" {
			b.WriteString("- name: " + jq(a.Name) + "\n  degree: " + jq(a.Degree) + "\n")
			if len(a.Name)%4 == 0 {
				b.WriteString("  since: \"v2\"\n")
			}
		} else {
			b.WriteString("- degree: " + jq(a.Degree) + "\n")
		}
	}
	if len(as) == 0 {
		return []byte("[]\n")
	}
	return []byte(b.String())
}

func jq(s string) string { return fmt.Sprintf("%q", s) }

// soundedOffsets plays a one-chord document (degree 1 in C) and returns the note-on keys minus 60.
func soundedKeys(c *core.Ctx, sym string, extra []string) ([]int, *smfdec.File, string, map[string]any) {
	p := model.Piece{Inst: []model.Instance{{Chord: &model.ChordSpec{Deg: theory.Interval{N: 1, Q: theory.Perfect}, Symbol: sym}, Values: one()}}}
	r, out := playPiece(c, p, model.Flags{}, writeOpts{extra: extra})
	if infra(c, r) {
		return nil, nil, "infra", nil
	}
	if a := abnormal(r); a != "" {
		return nil, nil, "abnormal: " + a, obs(r)
	}
	if !r.OK() {
		return nil, nil, "refused", obs(r)
	}
	f, derr := decodeSMF(out)
	if f == nil {
		return nil, nil, "decode: " + derr, obs(r)
	}
	var keys []int
	for _, e := range mergedEvents(f) {
		if e.Kind == smfdec.NoteOn {
			keys = append(keys, e.Key())
		}
	}
	return keys, f, "", nil
}

func checkC16(c *core.Ctx) {
	c.Rule("built-ins exhaustively: all 46 lookup keys (23 names + 23 displays) played on 3 degrees in 3 keys and described from 3 roots, name vs display compared; every attribute of `info attr list` compared with the interval its English name denotes; `info attr list` = `gen attr -d <largest listed number + 1>` = chord/attribute.yml; " +
		"user dictionaries: random inheritance forests (depth <= 6) over fresh attributes with random intervals, overriding and fresh names, split over 1..3 --chord/--attr files in any order of definitions and files (children before parents, comma lists, a file arriving through a pipe), symbols spelled like names, any built-in symbol taken over by a fresh chord, chains of 20..200 extends, played and compared with the parent-first transitive union; each inconsistency kind (dangling attribute, dangling extends, extends cycle of length 1..5, a chord leading into a cycle it is not part of, unnamed chord, unnamed attribute, dangling references and cycles in entries reachable by display only) injected with the broken chord used and unused; " +
		"non-trivial = forest with an inheritance chain >= 3 and a chord adding >= 2 attributes of its own, or a built-in lookup key checked against the conventional table; distinct by case")
	c.Assume("theory.ChordTable (conventional meanings listed in the property)", "theory.AttributeInterval reads English interval names", "smfdec", "yaml.v3 as reader")

	// ---- built-in symbols against the conventional table, by name and by display
	syms := theory.SymbolKeys()
	degs := []theory.Interval{{N: 1, Q: theory.Perfect}, {N: 5, Q: theory.Perfect}, {N: 3, Q: theory.Minor}}
	keys := []string{"C", "Ebm", "F#"}
	c.Stream("builtin", len(syms)*len(degs)*len(keys), func(i int, _ *rand.Rand) {
		sym := syms[i%len(syms)]
		dg := degs[(i/len(syms))%len(degs)]
		k := keys[i/(len(syms)*len(degs))]
		p := model.Piece{Inst: []model.Instance{{Chord: &model.ChordSpec{Deg: dg, Symbol: sym}, Values: one()}}}
		judgePitches(c, "builtin", i, p, model.Flags{Key: k}, writeOpts{})
		c.Seen("builtin_keys", ch0(sym))
		c.Nontrivial("builtin:" + sym + ":" + dg.Notation() + ":" + k)
	})

	// ---- many built-ins in one document, in shuffled orders with repetitions (one process resolves siblings
	// of the same parent one after the other)
	c.Stream("sequence", c.N(150, 2000), func(i int, r *rand.Rand) {
		var p model.Piece
		n := 20 + r.Intn(60)
		var recent []string
		for j := 0; j < n; j++ {
			sym := syms[r.Intn(len(syms))]
			if len(recent) > 2 && r.Intn(3) == 0 {
				sym = recent[r.Intn(len(recent))] // come back to a chord used before
			}
			recent = append(recent, sym)
			p.Inst = append(p.Inst, model.Instance{Chord: &model.ChordSpec{Deg: degs[r.Intn(len(degs))], Symbol: sym}, Values: one()})
		}
		if judgePitches(c, "sequence", i, p, model.Flags{Key: keys[r.Intn(len(keys))]}, writeOpts{}) {
			c.Nontrivial(fmt.Sprintf("sequence%d", i))
		}
	})

	// ---- name and display interchangeable in info chord describe
	var names []string
	for n := range theory.ChordNames {
		names = append(names, n)
	}
	names = sortedCopy(names)
	roots := []string{"C", "F#", "Bb"}
	c.Stream("describe", len(names)*len(roots), func(i int, _ *rand.Rand) {
		n := names[i%len(names)]
		root := roots[i/len(names)]
		d := theory.ChordNames[n]
		a := run(c, nil, "info", "chord", "describe", "-t", root+"_"+n)
		target := root + model.SymbolText(d, false)
		b := run(c, nil, "info", "chord", "describe", "-t", target)
		c.Eval(2)
		if infra(c, a) || infra(c, b) {
			return
		}
		if x := abnormal(a); x != "" {
			c.Violate("describe", i, "describe:"+n+":abnormal", "info chord describe "+x, obs(a))
			return
		}
		if x := abnormal(b); x != "" {
			c.Violate("describe", i, "describe:"+d+":abnormal", "info chord describe "+x, obs(b))
			return
		}
		if !a.OK() || !b.OK() {
			c.Violate("describe", i, "describe:"+n+":refused", fmt.Sprintf("info chord describe refuses a built-in chord (-t %s_%s ok=%v, -t %s ok=%v)", root, n, a.OK(), target, b.OK()), map[string]any{"by_name": obs(a), "by_display": obs(b)})
			return
		}
		if !bytes.Equal(a.Stdout, b.Stdout) {
			c.Violate("describe", i, "describe:"+n+":differs", fmt.Sprintf("chord %s described by name and by display %q gives different results", n, d), map[string]any{"by_name": obs(a), "by_display": obs(b)})
			return
		}
		// the described semitones are the conventional ones
		m, err := yamlMap(a.Stdout)
		if err != nil {
			c.Violate("describe", i, "describe:"+n+":yaml", err.Error(), obs(a))
			return
		}
		var semis []int
		for _, at := range asList(m["attributes"]) {
			am, _ := at.(map[string]any)
			s, _ := asInt(am["semitone"])
			semis = append(semis, s)
		}
		want, _ := theory.ChordSemis(d)
		if !eqInts(sortedInts(semis), sortedInts(want)) {
			c.Violate("describe", i, "describe:"+n+":semitones", fmt.Sprintf("chord %s (%q) is described with semitones %v, conventionally %v", n, d, semis, want), obs(a))
			return
		}
		c.Nontrivial("describe:" + n + ":" + root)
	})

	// ---- attributes: names mean what they say; list = gen = embedded
	c.StreamSeq("attrs", 1, func(_ int, _ *rand.Rand) {
		l := run(c, nil, "info", "attr", "list")
		// the generator bound is not part of the property: take it from the list itself
		// (`gen attr -d N` generates the numbers below N)
		maxN := 0
		if li, err := yamlList(l.Stdout); err == nil {
			for _, e := range li {
				m, _ := e.(map[string]any)
				if iv, ok := theory.AttributeInterval(asStr(m["name"])); ok && iv.N > maxN {
					maxN = iv.N
				}
			}
		}
		g := run(c, nil, "gen", "attr", "-d", fmt.Sprint(maxN+1))
		c.Eval(2)
		if infra(c, l) || infra(c, g) {
			return
		}
		if !l.OK() || !g.OK() || abnormal(l) != "" || abnormal(g) != "" {
			c.Violate("attrs", 0, "attrs:failed", "info attr list / gen attr failed", map[string]any{"list": obs(l), "gen": obs(g)})
			return
		}
		parse := func(b []byte) ([][2]string, error) {
			li, err := yamlList(b)
			if err != nil {
				return nil, err
			}
			var out [][2]string
			for _, e := range li {
				m, _ := e.(map[string]any)
				out = append(out, [2]string{asStr(m["name"]), asStr(m["degree"])})
			}
			return out, nil
		}
		ll, err1 := parse(l.Stdout)
		gl, err2 := parse(g.Stdout)
		emb, err := os.ReadFile(filepath.Join(c.Repo, "chord", "attribute.yml"))
		var el [][2]string
		var err3 error
		if err == nil {
			el, err3 = parse(emb)
		}
		if err1 != nil || err2 != nil || err3 != nil {
			c.Violate("attrs", 0, "attrs:yaml", fmt.Sprintf("attribute lists unreadable: %v %v %v", err1, err2, err3), nil)
			return
		}
		same := func(a, b [][2]string) bool {
			if len(a) != len(b) {
				return false
			}
			for i := range a {
				if a[i] != b[i] {
					return false
				}
			}
			return true
		}
		if !same(ll, gl) {
			c.Violate("attrs", 0, "attrs:list-vs-gen", fmt.Sprintf("info attr list (%d entries) differs from gen attr -d %d (%d entries)", len(ll), maxN+1, len(gl)), nil)
		}
		if err == nil && !same(ll, el) {
			c.Violate("attrs", 0, "attrs:list-vs-embedded", fmt.Sprintf("info attr list (%d entries) differs from chord/attribute.yml (%d entries)", len(ll), len(el)), nil)
		}
		seen := map[string]bool{}
		for _, a := range ll {
			iv, ok := theory.AttributeInterval(a[0])
			if !ok {
				c.Violate("attrs", 0, "attrs:name:"+a[0], fmt.Sprintf("built-in attribute %q is not an English interval name", a[0]), nil)
				continue
			}
			want, exists := theory.Size(iv.N, iv.Q)
			d, err := theory.ParseNotation(a[1])
			if !exists || err != nil {
				c.Violate("attrs", 0, "attrs:degree:"+a[0], fmt.Sprintf("built-in attribute %s has degree %q (exists=%v, %v)", a[0], a[1], exists, err), nil)
				continue
			}
			got, _ := theory.Size(d.N, d.Q)
			if got != want || d.N != iv.N {
				c.Violate("attrs", 0, "attrs:size:"+a[0], fmt.Sprintf("built-in attribute %s is defined as %s (%d semitones), its name says %d semitones", a[0], a[1], got, want), nil)
				continue
			}
			if seen[a[0]] {
				c.Violate("attrs", 0, "attrs:dup:"+a[0], "attribute listed twice: "+a[0], nil)
			}
			seen[a[0]] = true
			c.Nontrivial("attr:" + a[0])
		}
		c.Extra("builtin_attributes", len(ll))
	})

	// ---- info chord list pairs names and displays as the conventional table expects
	c.StreamSeq("chordlist", 1, func(_ int, _ *rand.Rand) {
		l := run(c, nil, "info", "chord", "list")
		c.Eval(1)
		if infra(c, l) {
			return
		}
		if !l.OK() {
			c.Violate("chordlist", 0, "chordlist:failed", "info chord list failed", obs(l))
			return
		}
		li, err := yamlList(l.Stdout)
		if err != nil {
			c.Violate("chordlist", 0, "chordlist:yaml", err.Error(), obs(l))
			return
		}
		got := map[string]string{}
		for _, e := range li {
			m, _ := e.(map[string]any)
			mm, _ := m["meta"].(map[string]any)
			got[asStr(m["name"])] = asStr(mm["display"])
		}
		for n, d := range theory.ChordNames {
			if g, ok := got[n]; !ok || g != d {
				c.Violate("chordlist", 0, "chordlist:"+n, fmt.Sprintf("built-in chord %s should have display %q, listed %q (present=%v)", n, d, g, ok), nil)
			}
		}
	})

	// ---- refreshing a merged dictionary in place: `info chord list --chord all.yml --chord new.yml -o all.yml` (and
	// the attribute twin) write what they print to the standard output, and the result is the dictionary again
	c.Stream("listinplace", c.N(12, 120), func(i int, r *rand.Rand) {
		f := genForest(r, "p")
		if len(f.chords) < 2 || len(f.attrs) < 2 {
			return
		}
		h := len(f.chords) / 2
		dir := c.Scratch.Path(fmt.Sprintf("inplace-%d", i))
		os.MkdirAll(dir, 0o755)
		write := func(name string, b []byte) string {
			fn := dir + "/" + name
			os.WriteFile(fn, b, 0o644)
			return fn
		}
		attrFile := write("attrs.yml", attrsYAML(f.attrs))
		all, add := chordsYAML(f.chords[:h]), chordsYAML(f.chords[h:])
		// the second file may extend chords of the first: the first one is the file that is overwritten
		allFile, addFile := write("all.yml", all), write("new.yml", add)
		for _, lc := range []struct {
			name   string
			args   []string
			target string
			orig   []byte
		}{
			{"info chord list", []string{"info", "chord", "list", "--attr", attrFile, "--chord", allFile, "--chord", addFile}, allFile, all},
			{"info attr list", []string{"info", "attr", "list", "--attr", attrFile}, attrFile, attrsYAML(f.attrs)},
		} {
			ref := run(c, nil, lc.args...)
			c.Eval(1)
			if infra(c, ref) {
				return
			}
			if !ref.OK() {
				c.Violate("listinplace", i, "listinplace:refused:"+lc.name, fmt.Sprintf("`crd %s` refuses a consistent dictionary", lc.name), obs(ref))
				return
			}
			res := run(c, nil, append(append([]string{}, lc.args...), "-o", lc.target)...)
			c.Eval(1)
			if infra(c, res) {
				return
			}
			got, _ := os.ReadFile(lc.target)
			os.WriteFile(lc.target, lc.orig, 0o644)
			if !res.OK() || !bytes.Equal(got, ref.Stdout) {
				c.Violate("listinplace", i, "listinplace:differs:"+lc.name, fmt.Sprintf("`crd %s ... -o <one of its own definition files>`: success=%v, the file holds %d bytes, the standard output of the same command %d", lc.name, res.OK(), len(got), len(ref.Stdout)),
					map[string]any{"argv": runner.ShellQuote(append(append([]string{}, lc.args...), "-o", lc.target)), "run": obs(res), "file": short(string(got), 600), "stdout": short(string(ref.Stdout), 600)})
				return
			}
		}
		c.Nontrivial(fmt.Sprintf("listinplace#%d", i))
	})

	// ---- several files redefining the same chord and attribute: the file given last wins (files are
	// named so that command-line order is the reverse of their alphabetical order)
	c.Stream("fileorder", c.N(40, 600), func(i int, r *rand.Rand) {
		k := 2 + r.Intn(3)
		var args []string
		var lastSemis []int
		for j := 0; j < k; j++ {
			a := model.RandInterval(r, 9)
			b := model.RandInterval(r, 13)
			sa, _ := theory.Size(a.N, a.Q)
			sb, _ := theory.Size(b.N, b.Q)
			if sa < 0 {
				a, sa = theory.Interval{N: 3, Q: theory.Major}, 4
			}
			if sb < 0 {
				b, sb = theory.Interval{N: 5, Q: theory.Perfect}, 7
			}
			name := fmt.Sprintf("order-%c-%d.yml", 'z'-j, i)
			af := c.Scratch.File("attr-"+name, attrsYAML([]userAttr{{Name: "Zfo", Degree: a.Notation()}}))
			cf := c.Scratch.File("chord-"+name, chordsYAML([]userChord{{Name: "Zfileorder", Display: "zfo", Attrs: []string{"Perfect1", "Zfo", theory.Interval{N: b.N, Q: b.Q}.String()}}}))
			// the built-in attribute list only has the five basic qualities up to 19: fall back to a plain one otherwise
			if b.Q == theory.DoublyAugmented || b.Q == theory.DoublyDiminished {
				cf = c.Scratch.File("chord-"+name, chordsYAML([]userChord{{Name: "Zfileorder", Display: "zfo", Attrs: []string{"Perfect1", "Zfo", "Perfect5"}}}))
				sb = 7
			}
			if r.Intn(2) == 0 {
				args = append(args, "--attr", af, "--chord", cf)
			} else {
				args = append(args, "--chord="+cf, "--attr="+af)
			}
			lastSemis = []int{0, sa, sb}
		}
		for _, key := range []string{"Zfileorder", "zfo"} {
			got, _, why, det := soundedKeys(c, key, args)
			if why == "infra" {
				return
			}
			if why != "" {
				c.Violate("fileorder", i, "fileorder:"+why[:min(len(why), 8)], fmt.Sprintf("%d dictionary files redefining one chord: %q cannot be played: %s", k, key, why), det)
				return
			}
			exp := []int{48}
			for _, x := range lastSemis {
				exp = append(exp, 60+x)
			}
			if !eqInts(sortedInts(got), sortedInts(exp)) {
				c.Violate("fileorder", i, "fileorder:notes", fmt.Sprintf("%d files redefine chord %q and its attribute; the last file given says %v, sounded %v (args: %s)", k, key, sortedInts(exp), sortedInts(got), strings.Join(args, " ")), nil)
				return
			}
		}
		c.Nontrivial(fmt.Sprintf("fileorder%d", i))
	})

	// ---- a very deep inheritance chain (the depth of `extends` is not bounded by the property)
	c.Stream("deepchain", c.N(10, 80), func(i int, r *rand.Rand) {
		depth := 20 + r.Intn(120)
		// every other chain consists of chords whose symbol is spelled like their name (one lookup key per chord)
		sameName := i%2 == 1
		if sameName {
			depth = 60 + r.Intn(140)
		}
		var as []userAttr
		var cs []userChord
		var semis []int
		for j := 0; j < depth; j++ {
			as = append(as, userAttr{Name: fmt.Sprintf("Zd%d", j), Degree: strconvItoa(1 + j%13)})
			s, _ := theory.Size(1+j%13, map[bool]theory.Quality{true: theory.Perfect, false: theory.Major}[(j%13)%7 == 0 || (j%13)%7 == 3 || (j%13)%7 == 4])
			semis = append(semis, s)
			uc := userChord{Name: fmt.Sprintf("Zdeep%d", j), Display: fmt.Sprintf("zdeep%d", j), Attrs: []string{fmt.Sprintf("Zd%d", j)}}
			if sameName {
				uc.Display = uc.Name
			}
			if j > 0 {
				uc.Extends = fmt.Sprintf("Zdeep%d", j-1)
			}
			cs = append(cs, uc)
		}
		if r.Intn(2) == 0 { // children first
			for a, b := 0, len(cs)-1; a < b; a, b = a+1, b-1 {
				cs[a], cs[b] = cs[b], cs[a]
			}
		}
		args := []string{"--attr", c.Scratch.File("deep-attr.yml", attrsYAML(as)), "--chord", c.Scratch.File("deep-chord.yml", chordsYAML(cs))}
		leaf := cs[0].Display
		if cs[0].Extends == "" {
			leaf = cs[len(cs)-1].Display
		}
		got, _, why, det := soundedKeys(c, leaf, args)
		if why == "infra" {
			return
		}
		if why != "" {
			c.Violate("deepchain", i, "deepchain:"+why[:min(len(why), 8)], fmt.Sprintf("a consistent chain of %d extends cannot be played: %s", depth, why), det)
			return
		}
		exp := []int{48}
		for _, x := range semis {
			exp = append(exp, 60+x)
		}
		if !eqInts(sortedInts(got), sortedInts(exp)) {
			c.Violate("deepchain", i, "deepchain:notes", fmt.Sprintf("chord at the end of a chain of %d extends sounds %d notes, its ancestors define %d", depth, len(got)-1, len(exp)-1), nil)
			return
		}
		c.Seen("chain_depths", fmt.Sprint(depth))
		c.Nontrivial(fmt.Sprintf("deep%d", depth))
	})

	// ---- a dictionary file that is not a regular file (a pipe reached through /dev/stdin: no size, no seeking)
	c.Stream("devstdin", c.N(60, 1000), func(i int, r *rand.Rand) {
		f := genForest(r, fmt.Sprint(i%10))
		uc := f.chords[r.Intn(len(f.chords))]
		want := f.semis[uc.Name]
		for _, s := range want {
			if 60+s > 127 {
				return
			}
		}
		sym := []string{uc.Name, uc.Display}[r.Intn(2)]
		if uc.Name == f.nameAlias {
			sym = uc.Name // its display symbol is the name of a built-in and keeps denoting that
		}
		p := model.Piece{Inst: []model.Instance{{Chord: &model.ChordSpec{Deg: theory.Interval{N: 1, Q: theory.Perfect}, Symbol: sym}, Values: one()}}}
		doc := c.Scratch.File("in.yml", p.YAML(model.YAMLStyle{}))
		var args []string
		var stdin []byte
		if i%2 == 0 {
			args = []string{"write", "--attr", c.Scratch.File("attr.yml", attrsYAML(f.attrs)), "--chord", "/dev/stdin", doc}
			stdin = chordsYAML(f.chords)
		} else {
			args = []string{"write", "--attr", "/dev/stdin", "--chord", c.Scratch.File("chord.yml", chordsYAML(f.chords)), doc}
			stdin = attrsYAML(f.attrs)
		}
		res := run(c, stdin, args...)
		c.Eval(1)
		if infra(c, res) {
			return
		}
		det := map[string]any{"run": obs(res), "stdin": short(string(stdin), 1500)}
		if a := abnormal(res); a != "" || !res.OK() {
			c.Violate("devstdin", i, "devstdin:refused", fmt.Sprintf("a consistent dictionary whose file arrives through a pipe (/dev/stdin): chord %q cannot be played %s", sym, a), det)
			return
		}
		file, derr := decodeSMF(res.Stdout)
		if file == nil {
			c.Violate("devstdin", i, "devstdin:decode", "output cannot be decoded: "+derr, det)
			return
		}
		var got []int
		for _, e := range mergedEvents(file) {
			if e.Kind == smfdec.NoteOn {
				got = append(got, e.Key())
			}
		}
		exp := []int{48}
		for _, s := range want {
			exp = append(exp, 60+s)
		}
		if !eqInts(sortedInts(got), sortedInts(exp)) {
			c.Violate("devstdin", i, "devstdin:notes", fmt.Sprintf("dictionary through a pipe: chord %q sounds %v, defined as %v", sym, sortedInts(got), sortedInts(exp)), det)
			return
		}
		c.Nontrivial(fmt.Sprintf("devstdin%d", i))
	})

	// ---- lookups must not be confused by chords that spell the same digits (degree 17 + "" / degree 1 + "7")
	c.Stream("collide", c.N(150, 3000), func(i int, r *rand.Rand) {
		p := collisionPiece(r)
		judgePitches(c, "collide", i, p, model.Flags{}, randWriteOpts(r))
	})

	// ---- a dictionary spread over more files than the process may hold open at once (one definition per file,
	// 100-300 files, open-file limit 48): files are read one after the other, the limit must not matter
	c.Stream("manyfiles", c.N(6, 60), func(i int, r *rand.Rand) {
		f := genForest(r, fmt.Sprint(i%10))
		var args []string
		for _, a := range f.attrs {
			args = append(args, "--attr", c.Scratch.File("a.yml", attrsYAML([]userAttr{a})))
		}
		for _, ch := range f.chords {
			args = append(args, "--chord", c.Scratch.File("c.yml", chordsYAML([]userChord{ch})))
		}
		total := 100 + r.Intn(200)
		for k := len(f.attrs) + len(f.chords); k < total; k++ {
			if k%2 == 0 {
				args = append(args, "--attr", c.Scratch.File("e.yml", attrsYAML([]userAttr{{Name: fmt.Sprintf("Zpad%d", k), Degree: fmt.Sprint(1 + k%13)}})))
			} else {
				args = append(args, "--chord", c.Scratch.File("e.yml", chordsYAML([]userChord{{Name: fmt.Sprintf("Zpadc%d", k), Display: fmt.Sprintf("zpadc%d", k), Attrs: []string{"Perfect1"}}})))
			}
		}
		uc := f.chords[r.Intn(len(f.chords))]
		want := f.semis[uc.Name]
		for _, s := range want {
			if 60+s > 127 {
				return
			}
		}
		msym := uc.Display
		if uc.Name == f.nameAlias {
			msym = uc.Name
		}
		p := model.Piece{Inst: []model.Instance{{Chord: &model.ChordSpec{Deg: theory.Interval{N: 1, Q: theory.Perfect}, Symbol: msym}, Values: one()}}}
		res := c.Crd.Run(runner.Opt{Stdin: p.YAML(model.YAMLStyle{}), NoFile: 48}, append([]string{"write"}, args...)...)
		c.Eval(1)
		if infra(c, res) {
			return
		}
		det := map[string]any{"files": total, "open_file_limit": 48, "stderr": short(string(res.Stderr), 300), "exit": res.Exit}
		if a := abnormal(res); a != "" || !res.OK() {
			c.Violate("manyfiles", i, "manyfiles:refused", fmt.Sprintf("a consistent dictionary in %d files cannot be loaded under an open-file limit of 48 %s", total, a), det)
			return
		}
		file, derr := decodeSMF(res.Stdout)
		if file == nil {
			c.Violate("manyfiles", i, "manyfiles:decode", derr, det)
			return
		}
		var got []int
		for _, e := range mergedEvents(file) {
			if e.Kind == smfdec.NoteOn {
				got = append(got, e.Key())
			}
		}
		exp := []int{48}
		for _, s := range want {
			exp = append(exp, 60+s)
		}
		if !eqInts(sortedInts(got), sortedInts(exp)) {
			c.Violate("manyfiles", i, "manyfiles:notes", fmt.Sprintf("dictionary in %d files: chord %q sounds %v, defined as %v", total, msym, sortedInts(got), sortedInts(exp)), det)
			return
		}
		c.Nontrivial(fmt.Sprintf("manyfiles%d", i))
	})

	// ---- user dictionaries
	c.Stream("forest", c.N(600, 15000), func(i int, r *rand.Rand) { userForestCase(c, i, r) })
	c.Stream("broken", c.N(600, 15000), func(i int, r *rand.Rand) { brokenDictCase(c, i, r) })
}

func strconvItoa(i int) string { return fmt.Sprint(i) }

func asList(v any) []any {
	l, _ := v.([]any)
	return l
}

type forest struct {
	attrs  []userAttr
	chords []userChord
	semis  map[string][]int // expected semitones per chord name (parent first)
	depth  map[string]int
	sizes  map[string]int
	// long name of the built-in whose display symbol a user chord took over ("" = none)
	takenOver string
	// name of the user chord that extends the taken-over symbol ("" = none)
	overTop string
	// name of a user chord whose display symbol is spelled like the long name of a built-in ("" = none):
	// that symbol is not usable for the user chord (the name wins), the chord is reachable by its own name
	nameAlias string
	// Sixth was defined again with the display symbol m6
	redefSixth bool
}

func genForest(r *rand.Rand, tag string) forest {
	f := forest{semis: map[string][]int{}, depth: map[string]int{}, sizes: map[string]int{}}
	na := 4 + r.Intn(10)
	for j := 0; j < na; j++ {
		iv := model.RandInterval(r, 15)
		s, _ := theory.Size(iv.N, iv.Q)
		if s < 0 {
			s = 0
			iv = theory.Interval{N: 1, Q: theory.Perfect}
		}
		name := fmt.Sprintf("Z%s%dq", tag, j)
		if j%2 == 1 {
			// the short names musicians use differ in case only (M3 / m3): the odd ones are the even ones in lower case
			name = strings.ToLower(fmt.Sprintf("Z%s%dq", tag, j-1))
		}
		f.attrs = append(f.attrs, userAttr{Name: name, Degree: iv.Notation()})
		f.sizes[name] = s
	}
	nc := 2 + r.Intn(8)
	usedAttr := map[string]map[string]bool{}
	for j := 0; j < nc; j++ {
		uc := userChord{Name: fmt.Sprintf("Zc%s%d", tag, j), Display: fmt.Sprintf("zc%s%d", tag, j)}
		if r.Intn(6) == 0 {
			uc.Display = uc.Name // a symbol spelled like the name
		}
		used := map[string]bool{}
		var base []int
		if j > 0 && r.Intn(4) != 0 {
			// extend an earlier chord with depth < 6, or sometimes a built-in
			if r.Intn(6) == 0 {
				bn := []string{"MajorTriad", "MinorSeventh", "DominantNinth", "m7b5", "sus4"}[r.Intn(5)]
				uc.Extends = bn
				s, _ := theory.ChordSemis(bn)
				base = append(base, s...)
				f.depth[uc.Name] = 2
			} else {
				par := f.chords[r.Intn(len(f.chords))]
				if f.depth[par.Name] < 6 {
					uc.Extends = par.Name
					if r.Intn(3) == 0 {
						uc.Extends = par.Display // parent referenced by display
					}
					base = append(base, f.semis[par.Name]...)
					for a := range usedAttr[par.Name] {
						used[a] = true
					}
					f.depth[uc.Name] = f.depth[par.Name] + 1
				}
			}
		}
		if f.depth[uc.Name] == 0 {
			f.depth[uc.Name] = 1
		}
		k := r.Intn(4)
		if uc.Extends == "" && k == 0 {
			k = 1
		}
		for t := 0; t < k; t++ {
			a := f.attrs[r.Intn(len(f.attrs))]
			if used[a.Name] {
				continue
			}
			used[a.Name] = true
			uc.Attrs = append(uc.Attrs, a.Name)
			base = append(base, f.sizes[a.Name])
		}
		if uc.Extends == "" && len(uc.Attrs) == 0 {
			a := f.attrs[0]
			uc.Attrs = []string{a.Name}
			used[a.Name] = true
			base = append(base, f.sizes[a.Name])
		}
		// sometimes use a built-in attribute too
		if r.Intn(4) == 0 {
			uc.Attrs = append(uc.Attrs, "Major13")
			base = append(base, 21)
		}
		usedAttr[uc.Name] = used
		f.semis[uc.Name] = base
		f.chords = append(f.chords, uc)
	}
	// override a built-in that nothing extends, under the same name and display
	if r.Intn(3) == 0 {
		a, b := f.attrs[r.Intn(len(f.attrs))], f.attrs[r.Intn(len(f.attrs))]
		uc := userChord{Name: "AddedNinth", Display: "add9", Attrs: []string{a.Name}}
		sem := []int{f.sizes[a.Name]}
		if b.Name != a.Name {
			uc.Attrs = append(uc.Attrs, b.Name)
			sem = append(sem, f.sizes[b.Name])
		}
		f.semis[uc.Name] = sem
		f.depth[uc.Name] = 1
		f.chords = append(f.chords, uc)
	}
	// a fresh chord that takes over the display symbol of a built-in (every built-in that extends another
	// names it by its long name, and the forest itself refers to m7b5 and sus4 only): user files are read
	// after the built-ins, so the symbol now means the user's chord while the long name keeps the built-in
	if r.Intn(2) == 0 {
		var disp []string
		for n, d := range theory.ChordNames {
			if d != "" && d != "m7b5" && d != "sus4" && d != "add9" && d != "m7" && d != "6" && d != "m6" {
				disp = append(disp, n)
			}
		}
		sort.Strings(disp)
		long := disp[r.Intn(len(disp))]
		a := f.attrs[r.Intn(len(f.attrs))]
		uc := userChord{Name: "Ztake" + tag, Display: theory.ChordNames[long], Attrs: []string{"Perfect1", a.Name}}
		f.semis[uc.Name] = []int{0, f.sizes[a.Name]}
		f.depth[uc.Name] = 1
		f.chords = append(f.chords, uc)
		f.takenOver = long
		// and a chord that extends the symbol just taken over, written as the symbol: its parent is the user's
		// chord, whatever was looked up before it (round 10, C16-mutR10b: a memo of resolved chords stored under
		// name and symbol, so that playing the built-in by its long name first handed its notes to the symbol)
		if b := f.attrs[(f.sizes[a.Name]+len(f.chords))%len(f.attrs)]; f.sizes[b.Name] != f.sizes[a.Name] && f.sizes[b.Name] != 0 {
			top := userChord{Name: "Ztop" + tag, Display: "ztop" + tag, Extends: uc.Display, Attrs: []string{b.Name}}
			f.semis[top.Name] = []int{0, f.sizes[a.Name], f.sizes[b.Name]}
			f.depth[top.Name] = 2
			f.chords = append(f.chords, top)
			f.overTop = top.Name
		}
	}
	// a built-in name defined again under the display symbol of ANOTHER built-in that is defined after it
	// (Sixth comes before MinorSixth in the built-in list): the re-definition is the last definition of both
	// the name and the symbol, so "Sixth" and "m6" are the user's chord; "6", the symbol of the replaced
	// chord, is gone with it; "MinorSixth" keeps denoting the built-in
	if r.Intn(3) == 0 {
		a := f.attrs[r.Intn(len(f.attrs))]
		uc := userChord{Name: "Sixth", Display: "m6", Attrs: []string{"Perfect1", a.Name}}
		f.semis[uc.Name] = []int{0, f.sizes[a.Name]}
		f.depth[uc.Name] = 1
		f.chords = append(f.chords, uc)
		f.redefSixth = true
	}
	// a fresh chord whose display symbol is spelled like the long NAME of a built-in: the name keeps denoting the
	// built-in (names win over display symbols), and so do the symbols of the built-ins that extend it
	if r.Intn(3) == 0 {
		victim := []string{"MinorTriad", "MajorSeventh", "DiminishedTriad", "AugmentedTriad"}[r.Intn(4)]
		if victim == f.takenOver {
			victim = "SuspendedFourth" // never taken over (the forest refers to sus4)
		}
		a := f.attrs[r.Intn(len(f.attrs))]
		uc := userChord{Name: "Zalias" + tag, Display: victim, Attrs: []string{"Perfect1", a.Name}}
		f.semis[uc.Name] = []int{0, f.sizes[a.Name]}
		f.depth[uc.Name] = 1
		f.chords = append(f.chords, uc)
		f.nameAlias = uc.Name
	}
	return f
}

func writeDictFiles(c *core.Ctx, r *rand.Rand, f forest) []string {
	// split over 1..3 files each, preserving order
	var args []string
	split := func(n int) []int {
		k := 1 + r.Intn(3)
		if k > n {
			k = n
		}
		if k < 1 {
			k = 1
		}
		cuts := []int{0}
		for j := 1; j < k; j++ {
			cuts = append(cuts, j*n/k)
		}
		return append(cuts, n)
	}
	// what a definition file may start with before its list: comments, a byte order mark, a directive, a document marker
	preamble := func(b []byte) []byte {
		pre := []string{"", "", "", "# definitions\n", "\ufeff", "%YAML 1.1\n---\n", "---\n", "\n\n", "# a comment\n---\n# another\n", "\ufeff# bom and comment\n"}[r.Intn(10)]
		return append([]byte(pre), b...)
	}
	ac := split(len(f.attrs))
	for j := 0; j+1 < len(ac); j++ {
		args = append(args, "--attr", c.Scratch.File([]string{"attr.yml", "tensions$sharp.yml", "a ttr ~ ${x}.yml", "$HOME.yml"}[r.Intn(4)], preamble(attrsYAML(f.attrs[ac[j]:ac[j+1]]))))
	}
	// the dictionary is the union of all files: names and displays are unique among the user's chords, so
	// neither the order of the definitions nor the order of the files matters (children before parents,
	// a child in an earlier file than its parent)
	chords := append([]userChord(nil), f.chords...)
	switch r.Intn(3) {
	case 0:
		r.Shuffle(len(chords), func(a, b int) { chords[a], chords[b] = chords[b], chords[a] })
	case 1:
		for a, b := 0, len(chords)-1; a < b; a, b = a+1, b-1 {
			chords[a], chords[b] = chords[b], chords[a]
		}
	}
	cc := split(len(chords))
	var files []string
	for j := 0; j+1 < len(cc); j++ {
		files = append(files, c.Scratch.File([]string{"chord.yml", "songs$book.yml", "ch ord ~ ${y}.yml", "$PATH.yml"}[r.Intn(4)], preamble(chordsYAML(chords[cc[j]:cc[j+1]]))))
	}
	// a definition file reached through a symbolic link and "..": cur -> lib/album, cur/../x.yml is lib/x.yml; the
	// file a lexical clean-up of the path would name holds an empty dictionary
	if len(files) > 0 && r.Intn(4) == 0 {
		root := c.Scratch.Path("dict-links")
		os.MkdirAll(filepath.Join(root, "lib", "album"), 0o755)
		os.Symlink(filepath.Join("lib", "album"), filepath.Join(root, "cur"))
		k := r.Intn(len(files))
		if b, err := os.ReadFile(files[k]); err == nil {
			os.WriteFile(filepath.Join(root, "lib", "band.yml"), b, 0o644)
			os.WriteFile(filepath.Join(root, "band.yml"), []byte("[]\n"), 0o644)
			files[k] = root + "/cur/../band.yml"
		}
	}
	if len(files) > 1 && r.Intn(3) == 0 {
		args = append(args, "--chord", strings.Join(files, ","))
	} else {
		for _, fn := range files {
			args = append(args, "--chord", fn)
		}
	}
	// a file named a second time, behind a file that redefines one of its entries: the file given last wins, so the
	// dictionary is what it was (the wrapper script that always appends the house dictionary)
	if len(files) > 0 && len(f.chords) > 0 && len(f.attrs) > 0 && r.Intn(4) == 0 {
		victim := chords[cc[len(cc)-2]] // the first chord of the last file
		over := c.Scratch.File("override.yml", chordsYAML([]userChord{{Name: victim.Name, Display: victim.Display, Attrs: []string{"Perfect1", "Augmented4"}}}))
		args = append(args, "--chord", over, "--chord", files[len(files)-1])
		lastAttr := f.attrs[ac[len(ac)-2]]
		overA := c.Scratch.File("override-attr.yml", attrsYAML([]userAttr{{Name: lastAttr.Name, Degree: "#11"}}))
		var attrFile string
		for j := len(args) - 1; j > 0; j-- {
			if args[j-1] == "--attr" {
				attrFile = args[j]
				break
			}
		}
		if attrFile != "" {
			args = append(args, "--attr="+overA, "--attr", attrFile)
		}
	}
	return args
}

func userForestCase(c *core.Ctx, i int, r *rand.Rand) {
	f := genForest(r, fmt.Sprint(i%10))
	args := writeDictFiles(c, r, f)
	if r.Intn(4) == 0 {
		// the dictionary means the same with --debug (what is logged must not touch what is built)
		args = append(args, "--debug")
	}
	sig := fmt.Sprintf("forest#%d", i)
	desc := map[string]any{"attr_yaml": short(string(attrsYAML(f.attrs)), 1500), "chord_yaml": short(string(chordsYAML(f.chords)), 2500)}
	maxDepth, rich := 0, false
	for _, uc := range f.chords {
		if f.depth[uc.Name] > maxDepth {
			maxDepth = f.depth[uc.Name]
		}
		if len(uc.Attrs) >= 2 {
			rich = true
		}
	}
	for _, uc := range f.chords {
		want := f.semis[uc.Name]
		ok := true
		for _, s := range want {
			if 60+s > 127 {
				ok = false
			}
		}
		if !ok || len(want) == 0 {
			continue
		}
		for _, key := range []string{uc.Name, uc.Display} {
			if uc.Name == f.nameAlias && key == uc.Display {
				// this spelling is the name of a built-in: it must keep sounding the built-in
				want, _ := theory.ChordSemis(key)
				exp := []int{48}
				for _, s := range want {
					exp = append(exp, 60+s)
				}
				if k, _, why, _ := soundedKeys(c, key, args); why == "" && !eqInts(sortedInts(k), sortedInts(exp)) {
					c.Violate("forest", i, sig+":name-shadowed", fmt.Sprintf("a user chord has the display symbol %q, which is the name of a built-in; that name now sounds %v, the built-in is %v", key, sortedInts(k), exp), desc)
					return
				}
				if k, _, why, _ := soundedKeys(c, theory.ChordNames[key], args); why == "" && !eqInts(sortedInts(k), sortedInts(exp)) {
					c.Violate("forest", i, sig+":name-shadowed-symbol", fmt.Sprintf("a user chord has the display symbol %q (the name of a built-in); the built-in's own symbol %q now sounds %v instead of %v", key, theory.ChordNames[key], sortedInts(k), exp), desc)
					return
				}
				continue
			}
			keysGot, _, why, det := soundedKeys(c, key, args)
			if why == "infra" {
				return
			}
			if why != "" {
				d2 := map[string]any{"run": det}
				for k, v := range desc {
					d2[k] = v
				}
				c.Violate("forest", i, sig+":"+why[:min(len(why), 8)], fmt.Sprintf("consistent user dictionary: chord %q cannot be played: %s", key, why), d2)
				return
			}
			exp := []int{60 - 12}
			for _, s := range want {
				exp = append(exp, 60+s)
			}
			if !eqInts(sortedInts(keysGot), sortedInts(exp)) {
				c.Violate("forest", i, sig+":notes", fmt.Sprintf("user chord %q (extends %q, attributes %v) sounds %v, the parent-first transitive union is %v", key, uc.Extends, uc.Attrs, sortedInts(keysGot), sortedInts(exp)), desc)
				return
			}
		}
	}
	// the long name of a built-in whose symbol was taken over still means the built-in
	if f.takenOver != "" {
		want, _ := theory.ChordSemis(f.takenOver)
		exp := []int{48}
		for _, s := range want {
			exp = append(exp, 60+s)
		}
		if k, _, why, _ := soundedKeys(c, f.takenOver, args); why == "" && !eqInts(sortedInts(k), sortedInts(exp)) {
			c.Violate("forest", i, sig+":takenover", fmt.Sprintf("a user chord took over the symbol %q; the long name %s now sounds %v, the built-in is %v", theory.ChordNames[f.takenOver], f.takenOver, sortedInts(k), exp), desc)
			return
		}
	}
	// a history: the built-in by its long name, then the chord that extends the symbol it lost, then the symbol
	// itself - what was resolved earlier in the piece must not change what a later chord means
	if f.overTop != "" {
		hist := []string{f.takenOver, f.overTop, theory.ChordNames[f.takenOver], f.takenOver}
		if i%2 == 1 {
			hist = []string{f.takenOver, theory.ChordNames[f.takenOver], f.overTop, f.takenOver}
		}
		bi, _ := theory.ChordSemis(f.takenOver)
		wantOf := func(n string) []int {
			var sem []int
			switch n {
			case f.takenOver:
				sem = bi
			case f.overTop:
				sem = f.semis[f.overTop]
			default:
				sem = f.semis["Ztake"+fmt.Sprint(i%10)]
			}
			exp := []int{48}
			for _, s := range sem {
				exp = append(exp, 60+s)
			}
			return sortedInts(exp)
		}
		inRange := true
		for _, n := range hist {
			for _, k := range wantOf(n) {
				if k > 127 {
					inRange = false
				}
			}
		}
		if inRange {
			var p model.Piece
			for _, n := range hist {
				p.Inst = append(p.Inst, model.Instance{Chord: &model.ChordSpec{Deg: theory.Interval{N: 1, Q: theory.Perfect}, Symbol: n}, Values: one()})
			}
			res, out := playPiece(c, p, model.Flags{}, writeOpts{extra: args})
			if infra(c, res) {
				return
			}
			if a := abnormal(res); a != "" || !res.OK() {
				c.Violate("forest", i, sig+":history-refused", fmt.Sprintf("a piece of the chords %q, each of which plays alone, is refused or ends abnormally (%s)", hist, a), withYAML(obs(res), p))
				return
			}
			if sf, derr := decodeSMF(out); sf == nil {
				c.Violate("forest", i, sig+":history-decode", "history piece: "+derr, obs(res))
				return
			} else {
				byTick := map[uint64][]int{}
				var ticks []uint64
				for _, e := range mergedEvents(sf) {
					if e.Kind == smfdec.NoteOn {
						if _, seen := byTick[e.Tick]; !seen {
							ticks = append(ticks, e.Tick)
						}
						byTick[e.Tick] = append(byTick[e.Tick], e.Key())
					}
				}
				sort.Slice(ticks, func(a, b int) bool { return ticks[a] < ticks[b] })
				if len(ticks) != len(hist) {
					c.Violate("forest", i, sig+":history-count", fmt.Sprintf("a piece of %d chords strikes notes at %d ticks", len(hist), len(ticks)), desc)
					return
				}
				for j, n := range hist {
					if got := sortedInts(byTick[ticks[j]]); !eqInts(got, wantOf(n)) {
						c.Violate("forest", i, sig+":history", fmt.Sprintf("in the piece %q chord %d (%q) sounds %v; alone it means %v (the symbol %q belongs to the user's chord, the long name %s to the built-in)", hist, j+1, n, got, wantOf(n), theory.ChordNames[f.takenOver], f.takenOver), desc)
						return
					}
				}
				c.Count("forest_histories", 1)
			}
		}
	}
	// built-ins stay usable next to the user dictionary
	if k, _, why, _ := soundedKeys(c, "m7", args); why == "" {
		if !eqInts(sortedInts(k), []int{48, 60, 63, 67, 70}) {
			c.Violate("forest", i, sig+":builtin", fmt.Sprintf("with a user dictionary loaded, m7 sounds %v", k), desc)
		}
	}
	c.Seen("forest_depths", fmt.Sprint(maxDepth))
	if maxDepth >= 3 && rich {
		c.Nontrivial(sig)
	}
	if c.WantSample() {
		c.Sample(desc)
	}
}

// brokenForest generates a dictionary with one injected inconsistency.
func brokenForest(i int, r *rand.Rand) (forest, string, bool) {
	kinds := []string{"dangling-attr", "dangling-extends", "cycle1", "cycle2", "cycle3", "cycle4", "cycle5", "unnamed-chord", "unnamed-attr", "tail1", "tail2", "tail3", "shadowed-dangling-extends", "shadowed-dangling-attr", "unnamed-chord-with-display", "shadowed-cycle1", "shadowed-cycle2", "extends-names-attribute", "extends-names-user-attribute", "attribute-names-chord", "attribute-names-user-chord", "attribute-names-symbol"}
	kind := kinds[i%len(kinds)]
	used := (i/len(kinds))%2 == 0
	f := genForest(r, "b")
	broken := userChord{Name: "Zbroken", Display: "zbroken"}
	switch kind {
	case "dangling-attr":
		broken.Attrs = []string{f.attrs[0].Name, "NoSuchAttribute"}
	case "dangling-extends":
		broken.Extends = "NoSuchChord"
		broken.Attrs = []string{f.attrs[0].Name}
	case "extends-names-attribute", "extends-names-user-attribute":
		// a reference into the wrong table: `extends` names something that is defined, but as an attribute
		broken.Extends = "Major7"
		if kind == "extends-names-user-attribute" {
			broken.Extends = f.attrs[len(f.attrs)-1].Name
		}
		broken.Attrs = []string{f.attrs[0].Name}
	case "attribute-names-chord", "attribute-names-user-chord", "attribute-names-symbol":
		// ... and an attribute reference names something that is defined as a chord
		other := map[string]string{"attribute-names-chord": "MinorTriad", "attribute-names-user-chord": f.chords[0].Name, "attribute-names-symbol": "sus4"}[kind]
		broken.Attrs = []string{f.attrs[0].Name, other}
	case "unnamed-chord":
		broken.Name = "\x00"
		broken.Attrs = []string{f.attrs[0].Name}
	case "unnamed-attr":
		f.attrs = append(f.attrs, userAttr{Name: "\x00", Degree: "3"})
		broken.Attrs = []string{f.attrs[0].Name}
	case "unnamed-chord-with-display":
		broken.Name = "\x00"
		broken.Display = "zunnamed"
		broken.Attrs = []string{f.attrs[0].Name}
	case "shadowed-dangling-extends", "shadowed-dangling-attr":
		// the broken entry stays reachable through its display symbol only: a later entry reuses its name
		broken.Display = "zbrokenold"
		if kind == "shadowed-dangling-extends" {
			broken.Extends = "NoSuchChord"
			broken.Attrs = []string{f.attrs[0].Name}
		} else {
			broken.Attrs = []string{"NoSuchAttribute"}
		}
		f.chords = append(f.chords, userChord{Name: "Zbroken", Display: "zbrokennew", Attrs: []string{f.attrs[0].Name}})
	case "shadowed-cycle1", "shadowed-cycle2":
		// a cycle that runs through display symbols of entries whose name a later entry reuses
		broken.Display = "zbrokenold"
		broken.Attrs = []string{f.attrs[0].Name}
		f.chords = append(f.chords, userChord{Name: "Zbroken", Display: "zbrokennew", Attrs: []string{f.attrs[0].Name}})
		if kind == "shadowed-cycle1" {
			broken.Extends = "zbrokenold"
		} else {
			broken.Extends = "zotherold"
			f.chords = append([]userChord{{Name: "Zother", Display: "zotherold", Extends: "zbrokenold", Attrs: []string{f.attrs[0].Name}}}, append(f.chords, userChord{Name: "Zother", Display: "zothernew", Attrs: []string{f.attrs[0].Name}})...)
		}
	case "tail1", "tail2", "tail3":
		// the broken chord is not part of the cycle, it only leads into one
		n := int(kind[4] - '0')
		first := "Zloop1"
		for j := 1; j <= n; j++ {
			next := fmt.Sprintf("Zloop%d", j+1)
			if j == n {
				next = first
			}
			f.chords = append(f.chords, userChord{Name: fmt.Sprintf("Zloop%d", j), Display: fmt.Sprintf("zloop%d", j), Extends: next, Attrs: []string{f.attrs[0].Name}})
		}
		broken.Extends = first
		broken.Attrs = []string{f.attrs[0].Name}
	default:
		n := int(kind[5] - '0')
		// Zbroken -> Zk1 -> ... -> Zbroken
		prev := "Zbroken"
		for j := n - 1; j >= 1; j-- {
			name := fmt.Sprintf("Zk%d", j)
			f.chords = append(f.chords, userChord{Name: name, Display: strings.ToLower(name), Extends: prev, Attrs: []string{f.attrs[0].Name}})
			prev = name
		}
		broken.Extends = prev
		if r.Intn(2) == 0 {
			broken.Attrs = []string{f.attrs[0].Name}
		}
	}
	// insert the broken chord at a random position (before its shadowing twin, if there is one)
	pos := r.Intn(len(f.chords) + 1)
	if strings.HasPrefix(kind, "shadowed") {
		pos = r.Intn(len(f.chords))
	}
	f.chords = append(f.chords[:pos], append([]userChord{broken}, f.chords[pos:]...)...)
	return f, kind, used
}

func brokenDictCase(c *core.Ctx, i int, r *rand.Rand) {
	f, kind, used := brokenForest(i, r)
	args := writeDictFiles(c, r, f)
	desc := map[string]any{"kind": kind, "used": used, "attr_yaml": short(string(attrsYAML(f.attrs)), 1200), "chord_yaml": short(string(chordsYAML(f.chords)), 2500)}
	sym := "m7"
	if used && kind != "unnamed-chord" {
		sym = "Zbroken"
	}
	if used && strings.HasPrefix(kind, "shadowed") {
		sym = "zbrokenold"
	}
	if used && kind == "unnamed-chord-with-display" {
		sym = "zunnamed"
	}
	doc := model.Piece{Inst: []model.Instance{{Chord: &model.ChordSpec{Deg: theory.Interval{N: 1, Q: theory.Perfect}, Symbol: sym}, Values: one()}}}.YAML(model.YAMLStyle{})
	if i%5 == 3 {
		// a piece that looks nothing up (rests only): the dictionary it is given is inconsistent all the same
		doc = model.Piece{Inst: []model.Instance{{Values: one()}, {Values: one(), Meta: map[string]string{"txt": "tacet"}}}}.YAML(model.YAMLStyle{})
		desc["piece"] = "rests only"
	}
	cmds := [][]string{
		append([]string{"write"}, args...),
		append([]string{"write", "event"}, args...),
		append([]string{"write", "parse"}, args...),
		append([]string{"info", "chord", "describe", "-t", "C_" + sym}, args...),
		append([]string{"info", "attr", "describe", "-t", "Major3", "-r", "D"}, args...),
		append([]string{"info", "chord", "list"}, args...),
		append([]string{"info", "attr", "list"}, args...),
	}
	// an entry that a later entry of the same name replaces is not part of the dictionary any more: whether the
	// dictionary is inconsistent then depends on which of the two comes last, so for those kinds only the form
	// of the outcome is judged (no crash, no hang)
	shadowed := strings.HasPrefix(kind, "shadowed")
	for ci, cmd := range cmds {
		res := run(c, doc, cmd...)
		c.Eval(1)
		if infra(c, res) {
			return
		}
		sig := fmt.Sprintf("broken:%s:used=%v:cmd=%d", kind, used, ci)
		if a := abnormal(res); a != "" {
			c.Violate("broken", i, sig+":abnormal", fmt.Sprintf("inconsistent dictionary (%s) makes `crd %s` %s", kind, strings.Join(cmd[:2], " "), a), mergeMaps(desc, map[string]any{"run": obs(res)}))
			return
		}
		if res.OK() && !shadowed {
			c.Violate("broken", i, sig+":accepted", fmt.Sprintf("inconsistent dictionary (%s, broken chord %s) is accepted by `crd %s`", kind, map[bool]string{true: "used", false: "not used"}[used], strings.Join(cmd[:2], " ")), mergeMaps(desc, map[string]any{"run": obs(res)}))
			return
		}
	}
	c.Seen("inconsistency_kinds", kind)
	c.Nontrivial(fmt.Sprintf("broken:%s:%v:%d", kind, used, i))
}

func mergeMaps(a, b map[string]any) map[string]any {
	r := map[string]any{}
	for k, v := range a {
		r[k] = v
	}
	for k, v := range b {
		r[k] = v
	}
	return r
}
