package main

import (
	"fmt"
	"math/rand"
	"sort"

	"verif/core"
	"verif/model"
	"verif/smfdec"
	"verif/theory"
)

func init() { register("C06", checkC06) }

func eventKey(e smfdec.Event) string {
	if e.Kind == smfdec.Meta {
		return fmt.Sprintf("%d meta %02X %x", e.Tick, e.MetaType, e.Data)
	}
	return fmt.Sprintf("%d %s ch%d %x", e.Tick, e.Kind, e.Ch, e.Data)
}

// mergedMultiset returns the sorted list of (tick,event) strings of all tracks without end-of-track.
func mergedMultiset(f *smfdec.File) []string {
	var l []string
	for _, t := range f.Tracks {
		for _, e := range t.Events {
			if e.Kind == smfdec.Meta && e.MetaType == smfdec.MetaEOT {
				continue
			}
			l = append(l, eventKey(e))
		}
	}
	sort.Strings(l)
	return l
}

func firstDiff(a, b []string) string {
	ma := map[string]int{}
	for _, x := range a {
		ma[x]++
	}
	for _, x := range b {
		ma[x]--
	}
	var keys []string
	for k, v := range ma {
		if v != 0 {
			keys = append(keys, fmt.Sprintf("%s (x%+d)", k, v))
		}
	}
	sort.Strings(keys)
	if len(keys) > 4 {
		keys = keys[:4]
	}
	return fmt.Sprint(keys)
}

// genTrackPiece makes pieces with control changes and rests anywhere and chords of 3..6 notes.
// oddValues are lengths that arithmetic shortcuts get wrong: ordinary values written with numerals of 2^63 and
// more, and dyadic values whose exact tick count misses a half tick by 2^-46 (exact in float64, but 960 times
// them is not).
var oddValues = [][]model.Frac{
	{{Num: 2, Den: 1}, {Num: 9223372036854775807, Den: 9223372036854775808}},
	{{Num: 18446744073709551615, Den: 9223372036854775808}},
	{{Num: 18446744073709551614, Den: 18446744073709551615}},
	{{Num: 13835058055282163712, Den: 9223372036854775808}},
	{{Num: 4487180253729041, Den: 4503599627370496}},
	{{Num: 4243235273913139, Den: 4503599627370496}},
	{{Num: 1, Den: 2}, {Num: 775228998357265, Den: 2251799813685248}},
	// lengths that round to no tick at all: the instance adds nothing to the piece
	{{Num: 1, Den: 2000}}, {{Num: 1, Den: 100000}}, {{Num: 1, Den: 4000}, {Num: 1, Den: 4001}}, {{Num: 1, Den: 1921}},
}

func genTrackPiece(r *rand.Rand, maxLen int) model.Piece {
	p := model.RandPiece(r, model.GenOpts{MinLen: 1, MaxLen: maxLen, RestProb: 0.3, SettingProb: 0.2, TextProb: 0.15, KeyChanges: true, BassProb: 0.4, MaxDeg: 9})
	if r.Intn(8) == 0 {
		p.Inst[r.Intn(len(p.Inst))].Values = append([]model.Frac(nil), oddValues[r.Intn(len(oddValues))]...)
	}
	if r.Intn(2) == 0 { // trailing rest
		p.Inst = append(p.Inst, model.Instance{Values: model.RandValues(r)})
	}
	if r.Intn(4) == 0 { // leading rest
		p.Inst = append([]model.Instance{{Values: model.RandValues(r)}}, p.Inst...)
	}
	return p
}

// compareTracks runs the piece with --track 1 and with every N of ns and judges merged content and
// end-of-track ticks. A refusal for N >= 2 is only acceptable when allowRefusal is set (pieces beyond
// 2^28 ticks, where an idle track's delay cannot be encoded).
func compareTracks(c *core.Ctx, stream string, i int, p model.Piece, ns []int, allowRefusal bool) bool {
	return compareTracksEnv(c, stream, i, p, ns, allowRefusal, nil)
}

// compareTracksEnv is compareTracks with extra environment for the runs with N >= 2 (CPU counts).
func compareTracksEnv(c *core.Ctx, stream string, i int, p model.Piece, ns []int, allowRefusal bool, env []string) bool {
	sig := fmt.Sprintf("%s#%d", stream, i)
	r1, out1 := playPiece(c, p, model.Flags{Track: 1}, writeOpts{})
	if infra(c, r1) {
		return false
	}
	if a := abnormal(r1); a != "" {
		c.Violate(stream, i, sig+":n1:abnormal", "crd write --track 1 "+a, withYAML(obs(r1), p))
		return false
	}
	if !r1.OK() {
		if !allowRefusal {
			c.Violate(stream, i, sig+":n1:failed", "crd write --track 1 fails on a valid document", withYAML(obs(r1), p))
		}
		return false
	}
	f1, derr := decodeSMF(out1)
	if f1 == nil {
		c.Violate(stream, i, sig+":n1:decode", "--track 1: "+derr, withYAML(obs(r1), p))
		return false
	}
	ref := mergedMultiset(f1)
	totals := model.StartSets(f1.Division, p)
	total := totals[len(totals)-1]
	for _, n := range append([]int{1}, ns...) {
		fn := f1
		if n > 1 {
			rn, outn := playPiece(c, p, model.Flags{Track: n}, writeOpts{env: env})
			if infra(c, rn) {
				return false
			}
			if a := abnormal(rn); a != "" {
				c.Violate(stream, i, fmt.Sprintf("%s:n%d:abnormal", sig, n), fmt.Sprintf("crd write --track %d %s", n, a), withYAML(obs(rn), p))
				return false
			}
			if !rn.OK() {
				if !allowRefusal {
					c.Violate(stream, i, fmt.Sprintf("%s:n%d:failed", sig, n), fmt.Sprintf("crd write --track %d fails on a document that --track 1 accepts", n), withYAML(obs(rn), p))
					return false
				}
				c.Count("refused_beyond_2^28", 1)
				continue
			}
			fn, derr = decodeSMF(outn)
			if fn == nil {
				c.Violate(stream, i, fmt.Sprintf("%s:n%d:decode", sig, n), fmt.Sprintf("--track %d: %s", n, derr), withYAML(obs(rn), p))
				return false
			}
			if got := mergedMultiset(fn); !eqStrs(got, ref) {
				c.Violate(stream, i, fmt.Sprintf("merged:n=%d", n), fmt.Sprintf("--track %d: merged events differ from --track 1: %s", n, firstDiff(got, ref)), pieceDesc(p, model.Flags{Track: n}))
				return false
			}
		}
		for ti, t := range fn.Tracks {
			if !model.InSet(total, t.EndTick) {
				c.Violate(stream, i, fmt.Sprintf("eot:n=%d", n), fmt.Sprintf("--track %d: end-of-track of track %d at tick %d, the piece lasts %v ticks", n, ti, t.EndTick, total), pieceDesc(p, model.Flags{Track: n}))
				return false
			}
		}
		c.Seen("track_counts", fmt.Sprint(n))
	}
	return true
}

func checkC06(c *core.Ctx) {
	c.Rule("random instance documents (chords of 3..6 notes, rests leading/inner/trailing, tempo/meter/key/text changes anywhere) each written with several --track N (2..32; `wide`: 33..4097 under GOMAXPROCS default/1/2/3/4/7; long pieces of 120-420 instances; pieces beyond 2^28 ticks); " +
		"merged multiset of (absolute tick, event bytes) without end-of-track must equal that of --track 1, and every track's end-of-track tick must be the total duration computed in exact rationals (trailing rests included); " +
		"non-trivial = (piece, N) with N >= 2, a rest not at the start and a mid-piece meta event; distinct by (piece index, N)")
	c.Assume("smfdec", "math/big totals; either neighbour at exact halves", "distribution of events over tracks is free")
	ns := []int{2, 3, 4, 5, 8, 16, 32}
	if !c.Quick() {
		ns = nil
		for n := 2; n <= 32; n++ {
			ns = append(ns, n)
		}
	}
	c.Stream("piece", c.N(800, 8000), func(i int, r *rand.Rand) {
		p := genTrackPiece(r, c.N(10, 30))
		if !p.Effective(model.Flags{}).AllInRange() || !p.TotalBelow(960, 1<<28) {
			c.Count("skipped", 1)
			return
		}
		sig := fmt.Sprintf("piece#%d", i)
		// the same instrument/program flags on every run: they are stated once, on the first track
		var base model.Flags
		if r.Intn(3) == 0 {
			pg := r.Intn(128)
			base.Program = &pg
		}
		if r.Intn(4) == 0 {
			in := []string{"Piano", "x", "ピアノ", "a b"}[r.Intn(4)]
			base.Instr = &in
		}
		withTrack := func(n int) model.Flags { f := base; f.Track = n; return f }
		r1, out1 := playPiece(c, p, withTrack(1), writeOpts{})
		if infra(c, r1) {
			return
		}
		if a := abnormal(r1); a != "" || !r1.OK() {
			c.Violate("piece", i, sig+":n1:failed", "crd write --track 1 fails on a valid document "+a, withYAML(obs(r1), p))
			return
		}
		f1, derr := decodeSMF(out1)
		if f1 == nil {
			c.Violate("piece", i, sig+":n1:decode", "--track 1: "+derr, withYAML(obs(r1), p))
			return
		}
		ref := mergedMultiset(f1)
		totals := model.StartSets(f1.Division, p)
		total := totals[len(totals)-1]
		restInner, metaMid := false, false
		for j, in := range p.Inst {
			if j > 0 && in.Chord == nil {
				restInner = true
			}
			if j > 0 && (in.BPM != 0 || in.Key != "" || in.Meter != nil || len(in.Meta) > 0) {
				metaMid = true
			}
		}
		checkEOT := func(f *smfdec.File, n int) bool {
			for ti, t := range f.Tracks {
				if !model.InSet(total, t.EndTick) {
					trail := p.Inst[len(p.Inst)-1].Chord == nil
					c.Violate("piece", i, fmt.Sprintf("eot:n=%d:trailingrest=%v", n, trail),
						fmt.Sprintf("--track %d: end-of-track of track %d at tick %d, the piece lasts %v ticks", n, ti, t.EndTick, total), withYAML(pieceDesc(p, withTrack(n)), p))
					return false
				}
			}
			return true
		}
		if !checkEOT(f1, 1) {
			return
		}
		c.Seen("track_counts", "1")
		for _, n := range ns {
			if c.Quick() && r.Intn(2) == 0 && n > 4 {
				continue
			}
			rn, outn := playPiece(c, p, withTrack(n), writeOpts{})
			if infra(c, rn) {
				return
			}
			if a := abnormal(rn); a != "" || !rn.OK() {
				c.Violate("piece", i, fmt.Sprintf("%s:n%d:failed", sig, n), fmt.Sprintf("crd write --track %d fails on a document that --track 1 accepts %s", n, a), withYAML(obs(rn), p))
				return
			}
			fn, derr := decodeSMF(outn)
			if fn == nil {
				c.Violate("piece", i, fmt.Sprintf("%s:n%d:decode", sig, n), fmt.Sprintf("--track %d: %s", n, derr), withYAML(obs(rn), p))
				return
			}
			got := mergedMultiset(fn)
			if !eqStrs(got, ref) {
				c.Violate("piece", i, fmt.Sprintf("merged:n=%d", n),
					fmt.Sprintf("--track %d: merged events differ from --track 1: %s", n, firstDiff(got, ref)), withYAML(pieceDesc(p, withTrack(n)), p))
				return
			}
			if !checkEOT(fn, n) {
				return
			}
			c.Seen("track_counts", fmt.Sprint(n))
			c.Count("events_compared", len(got))
			if restInner && metaMid {
				c.Nontrivial(fmt.Sprintf("%d/%d", i, n))
			}
		}
		if c.WantSample() {
			c.Sample(pieceDesc(p, model.Flags{}))
		}
	})

	// long pieces: hundreds of ops per track
	c.Stream("long", c.N(40, 400), func(i int, r *rand.Rand) {
		n := 120 + r.Intn(300)
		p := model.RandPiece(r, model.GenOpts{MinLen: n, MaxLen: n, RestProb: 0.1, SettingProb: 0.03, TextProb: 0.05, KeyChanges: true, BassProb: 0.3, MaxDeg: 9})
		if !p.Effective(model.Flags{}).AllInRange() || !p.TotalBelow(960, 1<<28) {
			return
		}
		ns := []int{2, 3, 4, 5, 8}
		if !c.Quick() {
			ns = []int{2, 3, 4, 5, 6, 7, 8, 12, 16, 32}
		}
		if compareTracks(c, "long", i, p, ns, false) {
			c.Nontrivial(fmt.Sprintf("long%d", i))
		}
	})
	// far more tracks than notes or MIDI keys, on 1, 2, 3, 4, 7 CPUs and as many as the machine has ("for every N >= 1")
	wide := []int{33, 63, 64, 65, 66, 100, 127, 128, 129, 130, 131, 200, 255, 256, 257, 1000, 4097}
	cpus := []string{"", "1", "2", "3", "4", "7"}
	c.Stream("wide", c.N(36, 17*6*3), func(i int, r *rand.Rand) {
		p := genTrackPiece(r, 8)
		if !p.Effective(model.Flags{}).AllInRange() || !p.TotalBelow(960, 1<<28) {
			return
		}
		var env []string
		if cp := cpus[i%len(cpus)]; cp != "" {
			env = []string{"GOMAXPROCS=" + cp}
		}
		ns := []int{wide[(i/len(cpus))%len(wide)], wide[r.Intn(len(wide))], 2 + r.Intn(31)}
		if compareTracksEnv(c, "wide", i, p, ns, false, env) {
			c.Seen("cpu_counts", cpus[i%len(cpus)]+"/")
			c.Nontrivial(fmt.Sprintf("wide%d", i))
		}
	})
	// chords above the MIDI range (compound degrees 20..70, high basses): crd may refuse them, but what it writes
	// keeps the clock - the same merged events for every N, every track ending with the piece
	c.Stream("high", c.N(150, 3000), func(i int, r *rand.Rand) {
		p := genTrackPiece(r, 8)
		hit := false
		for j := range p.Inst {
			if ch := p.Inst[j].Chord; ch != nil && (!hit || r.Intn(3) == 0) {
				n := 20 + r.Intn(50)
				q := theory.Major
				if k := (n - 1) % 7; k == 0 || k == 3 || k == 4 {
					q = theory.Perfect
				}
				ch.Deg = theory.Interval{N: n, Q: q}
				if r.Intn(3) == 0 {
					b := theory.Interval{N: 8 + 7*r.Intn(3), Q: theory.Perfect}
					ch.Bass = &b
				}
				hit = true
			}
		}
		if !hit || !p.TotalBelow(960, 1<<28) {
			return
		}
		if compareTracks(c, "high", i, p, []int{2, 3, 5}, true) {
			c.Nontrivial(fmt.Sprintf("high%d", i))
		}
	})
	// pieces longer than 2^28 ticks whose single deltas all fit: refusal is fine, a wrong file is not
	c.Stream("beyond", c.N(12, 60), func(i int, r *rand.Rand) {
		var p model.Piece
		k := 3 + r.Intn(4)
		for j := 0; j < k; j++ {
			in := model.Instance{Values: []model.Frac{{Num: uint64(80000 + r.Intn(150000)), Den: 1}}}
			if r.Intn(4) != 0 {
				in.Chord = &model.ChordSpec{Deg: model.SimpleInterval(r, 7), Symbol: "m7"}
			}
			if j > 0 && r.Intn(3) == 0 {
				in.BPM = model.RandBPM(r)
			}
			p.Inst = append(p.Inst, in)
		}
		if compareTracks(c, "beyond", i, p, []int{2, 3, 8}, true) {
			c.Nontrivial(fmt.Sprintf("beyond%d", i))
		}
	})
	// pieces longer than 2^32 ticks: 18..26 instances of 250,000 beats, a control change on each so that no track
	// idles beyond 2^28 ticks
	// tens of thousands of ops on one track (beyond any 16-bit count or block size), with rests so that tracks carry a
	// pending delay when the count is crossed: 17,000 x (rest, four-note chord) and 66,000 chords with a tempo each
	c.Stream("verylong", c.N(2, 8), func(i int, r *rand.Rand) {
		var p model.Piece
		ns := []int{2, 3, 4}
		if i%2 == 0 {
			for j := 0; j < 17000+r.Intn(500); j++ {
				p.Inst = append(p.Inst, model.Instance{Values: []model.Frac{{Num: 1, Den: 2}}},
					model.Instance{Chord: &model.ChordSpec{Deg: model.SimpleInterval(r, 7), Symbol: "7"}, Values: one()})
			}
		} else {
			for j := 0; j < 66000+r.Intn(500); j++ {
				in := model.Instance{Chord: &model.ChordSpec{Deg: model.SimpleInterval(r, 7), Symbol: "m"}, Values: []model.Frac{{Num: 1, Den: 4}}, BPM: uint64(60 + j%120)}
				if j%50 == 17 {
					in.Chord = nil
				}
				p.Inst = append(p.Inst, in)
			}
			ns = []int{2, 5}
		}
		if !p.Effective(model.Flags{}).AllInRange() {
			return
		}
		if compareTracks(c, "verylong", i, p, ns, false) {
			c.Nontrivial(fmt.Sprintf("verylong%d", i))
		}
	})

	// instances of 2^64 ticks and more, in several spellings (one numeral, whole numbers that only sum up to it, tick
	// counts whose low 64 bits are small): no MIDI file can hold them, so every track count must refuse the piece
	hugeBeats := [][]model.Frac{
		{{Num: 288230376151711745, Den: 1}}, {{Num: 288230376151711744, Den: 1}}, {{Num: 576460752303423488, Den: 1}}, {{Num: 1 << 63, Den: 1}},
		{{Num: 18446744073709551615, Den: 1}, {Num: 2, Den: 1}}, {{Num: 1 << 63, Den: 1}, {Num: 1 << 63, Den: 1}}, {{Num: 18446744073709551615, Den: 1}, {Num: 1, Den: 1}},
		{{Num: 18446744073709551615, Den: 960}, {Num: 1921, Den: 960}}, {{Num: 1 << 62, Den: 1}, {Num: 1 << 62, Den: 1}, {Num: 1 << 63, Den: 1}, {Num: 3, Den: 1}},
		{{Num: 19215358410114116, Den: 1}, {Num: 1, Den: 15}}, {{Num: 18446744073709551615, Den: 1}, {Num: 18446744073709551615, Den: 1}, {Num: 2, Den: 1}},
	}
	c.Stream("hugebeats", len(hugeBeats)*3, func(i int, r *rand.Rand) {
		v := hugeBeats[i%len(hugeBeats)]
		n := []int{1, 2, 3}[i/len(hugeBeats)]
		var p model.Piece
		ch := &model.ChordSpec{Deg: model.SimpleInterval(r, 7), Symbol: "m7"}
		switch i % 3 {
		case 0:
			p.Inst = []model.Instance{{Chord: ch, Values: v}, {Chord: ch, Values: one()}}
		case 1:
			p.Inst = []model.Instance{{Chord: ch, Values: one()}, {Values: v}, {Chord: ch, Values: one()}}
		default:
			p.Inst = []model.Instance{{Chord: ch, Values: one()}, {Chord: ch, Values: v}}
		}
		res, out := playPiece(c, p, model.Flags{Track: n}, writeOpts{})
		if infra(c, res) {
			return
		}
		sig := fmt.Sprintf("hugebeats#%d", i%len(hugeBeats))
		if a := abnormal(res); a != "" {
			c.Violate("hugebeats", i, sig+":abnormal", fmt.Sprintf("crd write --track %d %s", n, a), withYAML(obs(res), p))
			return
		}
		if res.OK() {
			end := "?"
			if f, _ := decodeSMF(out); f != nil && len(f.Tracks) > 0 {
				end = fmt.Sprint(f.Tracks[0].EndTick)
			}
			c.Violate("hugebeats", i, sig+":accepted", fmt.Sprintf("--track %d: an instance of %s beats (about 2^64 ticks or more, no delta time can hold that) is written to a file that ends at tick %s", n, model.ValuesText(v), end), withYAML(obs(res), p))
			return
		}
		c.Nontrivial(fmt.Sprintf("hugebeats%d", i))
	})

	// value lists whose printed forms collide under a 32-bit FNV-1a hash (witnesses handed over with the seeded change
	// C06-mutZ1: a memo keyed by such a fingerprint gives the later list the length of the earlier one). This replays
	// known collisions; a collision of another hash function would need its own witnesses.
	fr := func(n, d uint64) model.Frac { return model.Frac{Num: n, Den: d} }
	collisions := [][2][]model.Frac{
		{{fr(4, 1), fr(8, 1), fr(3, 2)}, {fr(2, 1), fr(1, 1), fr(1, 3), fr(1, 2), fr(3, 4)}},
		{{fr(4, 1), fr(8, 1), fr(3, 4)}, {fr(2, 1), fr(1, 1), fr(1, 3), fr(1, 2), fr(3, 2)}},
		{{fr(45, 90)}, {fr(693, 365)}},
	}
	c.Stream("fingerprints", len(collisions)*2, func(i int, r *rand.Rand) {
		pair := collisions[i%len(collisions)]
		a, b := pair[0], pair[1]
		if i >= len(collisions) {
			a, b = b, a
		}
		ch := func() *model.ChordSpec { return &model.ChordSpec{Deg: model.SimpleInterval(r, 7), Symbol: "m7"} }
		p := model.Piece{Inst: []model.Instance{{Chord: ch(), Values: a}, {Values: one()}, {Chord: ch(), Values: b}, {Values: a}, {Chord: ch(), Values: one()}}}
		if compareTracks(c, "fingerprints", i, p, []int{2, 3}, false) {
			c.Nontrivial(fmt.Sprintf("fingerprints%d", i))
		}
	})

	c.Stream("beyond32", c.N(4, 24), func(i int, r *rand.Rand) {
		var p model.Piece
		k := 18 + r.Intn(9)
		for j := 0; j < k; j++ {
			in := model.Instance{Values: []model.Frac{{Num: uint64(250000 + r.Intn(20000)), Den: 1}}, BPM: uint64(60 + r.Intn(120))}
			if r.Intn(5) != 0 {
				in.Chord = &model.ChordSpec{Deg: model.SimpleInterval(r, 7), Symbol: "m7"}
			}
			p.Inst = append(p.Inst, in)
		}
		if compareTracks(c, "beyond32", i, p, []int{2, 3, 5}, true) {
			c.Nontrivial(fmt.Sprintf("beyond32-%d", i))
		}
	})

	// the same lengths with nothing but notes: with N >= 2 the track of the
	// settings stays silent from tick 0 on and its pending delay alone passes 2^32 ticks (round 10, C06-mutR10a:
	// the saturating sum replaced by a plain one, the end-of-track then sits at the total modulo 2^32)
	c.Stream("beyond32-silent", c.N(4, 24), func(i int, r *rand.Rand) {
		var p model.Piece
		// 17 chords of 263,200..279,619 beats: every delta fits (below 2^28 ticks at 960 ticks a beat), the total
		// lies between 2^32 and 2^32 + 2^28 ticks, where a wrapped sum is a delta that can be written
		for j := 0; j < 17; j++ {
			in := model.Instance{Values: []model.Frac{{Num: uint64(263200 + r.Intn(16420)), Den: 1}}}
			in.Chord = &model.ChordSpec{Deg: model.SimpleInterval(r, 7), Symbol: []string{"7", "m7", "", "sus4"}[r.Intn(4)]}
			p.Inst = append(p.Inst, in)
		}
		if compareTracks(c, "beyond32-silent", i, p, []int{2, 3, 5}, true) {
			c.Nontrivial(fmt.Sprintf("beyond32-silent-%d", i))
		}
	})
}
