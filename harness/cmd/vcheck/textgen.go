package main

import (
	"math/rand"
	"strings"

	"verif/grammar"
)

var triviaChoices = []string{"", "", " ", " ", "  ", "\t", "\n", "\r\n", " ;c\n", ";x y [ ] { } _ /\n", "\n\n ", " ; ♯ comment ♭ \n\t", ";a\n;b\n", " ;a\n  ;b\n;c\n", "\r", "\f", "\u00a0", "\u3000 ",
	// comment bodies with tabs, control characters, CR and other blanks followed by chord-like text
	// comments without text (the comment ends at its own line break, whatever follows)
	";\n", " ; \t\n", ";\r\n", ";\n;\n\n", "\n;\n", ";;\n",
	";was:\tD_7[2]\n", " ;\x01\x7f ctl E[1]\n", "; nb\u00a0sp F[1]{a=b}\n", ";cr\rC[9]\n", ";\u2028ls G[1]\n", ";\x00nul A[1]\n",
	// bytes that other systems read as an end of input (^Z of DOS, ^D, escape, ^C) are ordinary comment text
	";eof\x1a B[1]\n", " ;\x04\x1b\x03 D[2]\n", ";\x1a\n",
	// a comment ends at its line break, also when its last character is a backslash
	"; source: C:\\songs\\autumn\\\n", ";\\\n", " ;x\\\r\n"}

var metaLexemes = []string{";-)", ";k", "７", "k", "key", "Am", "txt", "a b", "x;y", "120", "v w  x", "5/4", "ff", "日本語", "tail", "semi;colon", "new\nline", "[1]", "C_7/E", "-", "é😀", "#", "b"}

var freeSymbols = []string{"７", "m٣", "m", "dim", "maj7", "aug", "sus4", "M7", "m7b5", "add9", "mM7", "m7", "o", "ø7", "(b9)", "+", "-5", "maj7#11", "mb5", "sus", "Δ", "x]y", "{q", "a,b", "}",
	// runes that look like an accidental sign but are not one: part of the symbol, with or without the underscore
	"＃m7", "＃", "♮7", "ｂ5", "𝄪", "𝄫9", "﹟11",
	// an open parenthesis that is never closed; symbols that begin with a variation selector
	"m7(b5", "7(b9", "(", "maj7(", "\ufe0em7", "\ufe0f7"}

// bareSymbols are the free symbols that lex as one SYMBOL without a leading underscore.
var bareSymbols = func() []string {
	var out []string
	for _, s := range freeSymbols {
		tr := grammar.Tokenize([]byte("C" + s + "[1]"))
		if !tr.LexErr && len(tr.Tokens) == 5 && tr.Tokens[1].Kind == "SYMBOL" && tr.Tokens[1].Val == s {
			out = append(out, s)
		}
	}
	return out
}()

var underscoreSymbols = []string{"7", "9", "6", "7sus4", "13", "m7", "b5", "C", "R", "#x", "{z", "]q", "1,2", "♯11", "dim", "7(b9)", "69"}

// randomChordTokens generates the token list of n chords/rests.
func randomChordTokens(r *rand.Rand, n int) []grammar.Token {
	var t []grammar.Token
	add := func(k, v string) { t = append(t, grammar.Token{Kind: k, Val: v}) }
	num := func() string {
		return []string{"1", "2", "3", "4", "8", "16", "12", "007", "480", "0", "100000"}[r.Intn(11)]
	}
	head := func() {
		if r.Intn(2) == 0 {
			add("SYLLABLE", string("CDEFGAB"[r.Intn(7)]))
		} else {
			add("NUMBER", []string{"1", "2", "3", "4", "5", "6", "7", "9", "11", "13", "01"}[r.Intn(11)])
		}
		switch r.Intn(6) {
		case 0:
			add("SHARP", "#")
		case 1:
			add("FLAT", "b")
		case 2:
			if r.Intn(2) == 0 {
				add("SHARP", "♯")
			} else {
				add("FLAT", "♭")
			}
		}
	}
	for i := 0; i < n; i++ {
		if r.Intn(5) == 0 {
			add("REST", "R")
		} else {
			head()
			switch r.Intn(4) {
			case 0:
				add("SYMBOL", bareSymbols[r.Intn(len(bareSymbols))])
			case 1:
				add("UNDERSCORE", "_")
				add("SYMBOL", underscoreSymbols[r.Intn(len(underscoreSymbols))])
			case 2:
				add("UNDERSCORE", "_")
				add("SYMBOL", freeSymbols[r.Intn(len(freeSymbols))])
			}
			if r.Intn(3) == 0 {
				add("SLASH", "/")
				head()
			}
		}
		add("LBRA", "[")
		for k := 0; ; k++ {
			add("NUMBER", num())
			if r.Intn(3) == 0 {
				add("SLASH", "/")
				add("NUMBER", num())
			}
			if k < 3 && r.Intn(4) == 0 {
				add("COMMA", ",")
				continue
			}
			break
		}
		add("RBRA", "]")
		if r.Intn(3) == 0 {
			add("LCBRA", "{")
			for k := 0; ; k++ {
				add("METADATA", metaLexemes[r.Intn(len(metaLexemes))])
				add("EQUAL", "=")
				add("METADATA", metaLexemes[r.Intn(len(metaLexemes))])
				if k < 3 && r.Intn(3) == 0 {
					add("COMMA", ",")
					continue
				}
				break
			}
			add("RCBRA", "}")
		}
	}
	return t
}

func sameTokens(a []grammar.Token, b []grammar.Token) bool {
	if len(a) != len(b) {
		return false
	}
	for i := range a {
		if a[i] != b[i] {
			return false
		}
	}
	return true
}

// joinTokens renders the tokens; with trivia it inserts white space and
// comments at random token boundaries and keeps only what the reference
// tokenizer reads back as exactly the same token list. Chords are rendered one
// by one (the lexer is back in normal mode after every `]` or `}`), so the cost
// stays linear in the length of the text.
func joinTokens(toks []grammar.Token, r *rand.Rand, trivia bool) string {
	chordEnd := func(i int) bool {
		switch toks[i].Kind {
		case "RCBRA":
			return true
		case "RBRA":
			return i+1 >= len(toks) || toks[i+1].Kind != "LCBRA"
		}
		return i == len(toks)-1
	}
	render := func(r *rand.Rand, trivia bool) string {
		var b strings.Builder
		start := 0
		for i := range toks {
			if !chordEnd(i) {
				continue
			}
			if start > 0 {
				sep := " "
				if trivia && r != nil {
					sep = triviaChoices[r.Intn(len(triviaChoices))]
				}
				b.WriteString(sep)
			}
			b.WriteString(joinChord(toks[start:i+1], r, trivia))
			start = i + 1
		}
		return b.String()
	}
	s := render(r, trivia)
	if !sameTokens(grammar.Tokenize([]byte(s)).Tokens, toks) {
		// a boundary without white space glued two tokens together: fall back to blanks
		s = render(nil, false)
	}
	if trivia && r != nil {
		// leading and trailing trivia (a comment at the very end with and without newline)
		lead := []string{"", " ", "\n", ";lead\n", "\t\t", ";\n", " ;\n\n"}[r.Intn(7)]
		trail := []string{"", " ", "\n", " ;end\n", ";end", "\n\n", ";", " ;\n", ";\n\n"}[r.Intn(9)]
		if cand := lead + s + trail; sameTokens(grammar.Tokenize([]byte(cand)).Tokens, toks) {
			s = cand
		}
	}
	return s
}

// joinTokensSep renders the chords without trivia inside them and with the given separator between them.
func joinTokensSep(toks []grammar.Token, sep string) string {
	var b strings.Builder
	start := 0
	for i := range toks {
		end := i == len(toks)-1
		switch toks[i].Kind {
		case "RCBRA":
			end = true
		case "RBRA":
			end = i+1 >= len(toks) || toks[i+1].Kind != "LCBRA"
		}
		if !end {
			continue
		}
		if start > 0 {
			b.WriteString(sep)
		}
		b.WriteString(joinChord(toks[start:i+1], nil, false))
		start = i + 1
	}
	return b.String()
}

// joinChord renders the tokens of one chord or rest.
func joinChord(toks []grammar.Token, r *rand.Rand, trivia bool) string {
	var b strings.Builder
	inMeta := false
	for i, t := range toks {
		if i > 0 {
			sep := ""
			if trivia && r != nil {
				sep = triviaChoices[r.Intn(len(triviaChoices))]
			}
			// inside {}: blanks only before a METADATA (they are skipped), never after one; comments are data there
			if inMeta {
				if strings.Contains(sep, ";") {
					sep = ""
				}
			}
			cand := b.String() + sep + t.Val
			if !prefixTokens(cand, toks[:i+1]) {
				// try a plain space, then nothing
				if prefixTokens(b.String()+" "+t.Val, toks[:i+1]) {
					sep = " "
				} else {
					sep = ""
				}
			}
			b.WriteString(sep)
		}
		b.WriteString(t.Val)
		switch t.Kind {
		case "LCBRA":
			inMeta = true
		case "RCBRA":
			inMeta = false
		}
	}
	return b.String()
}

// prefixTokens reports whether text tokenises to exactly the given tokens
// (the last one possibly still open at the end of the text).
func prefixTokens(text string, toks []grammar.Token) bool {
	tr := grammar.Tokenize([]byte(text))
	return !tr.LexErr && sameTokens(tr.Tokens, toks)
}

// randomChordText returns a text that is a sentence of the documented language.
func randomChordText(r *rand.Rand, n int, trivia bool) string {
	for {
		toks := randomChordTokens(r, n)
		s := joinTokens(toks, r, trivia)
		if sameTokens(grammar.Tokenize([]byte(s)).Tokens, toks) {
			return s
		}
	}
}
