package main

import (
	"bytes"
	"fmt"
	"math/rand"
	"os"
	"path/filepath"
	"strings"

	"verif/core"
	"verif/runner"
	"verif/theory"
)

func init() { register("C14", checkC14) }

// chainsUpTo enumerates all strings over {p,r,d,s} with 1..L letters.
func chainsUpTo(L int) []string {
	var out []string
	cur := []string{""}
	for l := 1; l <= L; l++ {
		var next []string
		for _, c := range cur {
			for _, o := range "prds" {
				next = append(next, c+string(o))
			}
		}
		out = append(out, next...)
		cur = next
	}
	return out
}

func passesEnharmonic(k theory.Key, chain string) bool {
	pc, minor := k.Tonic.PC(), k.Minor
	for i := 0; i < len(chain); i++ {
		pc, minor, _ = theory.ConvertPC(pc, minor, chain[i])
		if len(theory.SpellingsOf(pc, minor)) > 1 {
			return true
		}
	}
	return false
}

// convCLI runs one conversion and judges it; returns the printed set.
func convCLI(c *core.Ctx, stream string, idx int, k theory.Key, chain string) {
	convCLIOut(c, stream, idx, k, chain, idx%23 == 7, 10)
}

// convCLIOut runs one conversion; with toFile the result goes to -o (every other time onto a file that
// already holds older, longer content) and is read back from there.
func convCLIOut(c *core.Ctx, stream string, idx int, k theory.Key, chain string, toFile bool, cpu int) {
	args := []string{"info", "key", "conv", "--key", k.String(), "-c", chain}
	var outPath string
	if toFile {
		outPath = c.Scratch.Path("conv.out")
		if idx%2 == 1 {
			os.WriteFile(outPath, []byte("C#m\nDbm\nEbm\nF#m\nG#m\nprevious result\n"), 0o644)
		}
		args = append(args, "-o", outPath)
	}
	// other output routes, taken by a fixed share of the cases: -o naming the standard output (a pipe, not a
	// regular file), -o /dev/null, a file name with $ ~ { } and blanks, and --debug (diagnostics belong on stderr)
	route := ""
	if !toFile {
		switch idx % 23 {
		case 11:
			route = "-o /dev/stdout"
			args = append(args, "-o", []string{"/dev/stdout", "/dev/fd/1"}[idx/23%2])
		case 13:
			route = "-o odd name"
			toFile = true
			outPath = c.Scratch.Path("keys$d ~ ${x} $HOME.txt")
			args = append(args, "-o", outPath)
		case 17:
			route = "--debug"
			args = append([]string{"--debug"}, args...)
		case 19:
			route = "-o /dev/null"
			args = append(args, "--output=/dev/null")
		case 3:
			route = "stdout appended to a log"
		case 5:
			route = "stdout is a socket"
		case 9:
			route = "files named like the chain in the working directory"
		case 1:
			route = "-o through a symbolic link and .."
		case 15:
			route = "-o -"
		}
	}
	var opt runner.Opt
	logPath, logOld := "", []byte("info key conv --key C -c d\nG\n")
	switch route {
	case "stdout appended to a log":
		// `crd ... >> log`: the descriptor is positioned behind what the log holds already
		logPath = c.Scratch.File("conv.log", logOld)
		opt.Redirect = ">>" + logPath
	case "stdout is a socket":
		opt.StdoutKind = "socket"
	case "files named like the chain in the working directory":
		// -c is a chain of steps, not the name of a file
		dir := c.Scratch.Path("chaindir")
		os.MkdirAll(dir, 0o755)
		for _, n := range []string{"d", "s", "r", "p", "dd", "ps", "sp"} {
			os.WriteFile(filepath.Join(dir, n), []byte("s\n"), 0o644)
		}
		if len(chain) < 200 {
			os.WriteFile(filepath.Join(dir, chain), []byte("rp\n"), 0o644)
		}
		opt.Dir = dir
	case "-o through a symbolic link and ..":
		// latest -> store/today; "-o latest/../keys.txt" is store/keys.txt (what the operating system opens)
		root := c.Scratch.Path("c14-links")
		os.MkdirAll(filepath.Join(root, "store", "today"), 0o755)
		os.Symlink(filepath.Join("store", "today"), filepath.Join(root, "latest"))
		outPath = filepath.Join(root, "store", "keys.txt")
		os.Remove(outPath)
		os.Remove(filepath.Join(root, "keys.txt"))
		toFile = true
		if idx/23%2 == 0 {
			opt.Dir = root
			args = append(args, "-o", "latest/../keys.txt")
		} else {
			args = append(args, "-o", root+"/latest/../keys.txt")
		}
	case "-o -":
		// the output file is called "-": a name like any other
		dir := c.Scratch.Path("c14-dash")
		os.MkdirAll(dir, 0o755)
		outPath = filepath.Join(dir, "-")
		os.Remove(outPath)
		toFile = true
		opt.Dir = dir
		args = append(args, []string{"-o", "-"}[0], []string{"-o", "-"}[1])
	}
	// the conversion has two inputs, --key and -c: whatever waits on the standard input and whatever the environment
	// holds is none of its business (every fifth case gets another chain on stdin and CRD_* variables)
	var r *runner.Result
	if idx%5 == 2 {
		r = c.Crd.Run(runner.Opt{Stdin: []byte([]string{"s", "pd\n", "rrr", "x", "d d d\n"}[idx/5%5]), CPUSec: cpu, Dir: opt.Dir, Redirect: opt.Redirect, StdoutKind: opt.StdoutKind,
			Env: []string{"CRD_KEY=" + []string{"Eb", "F#m", "H", "C"}[idx/5%4], "CRD_COMMAND=s", "CRD_C=p", "KEY=Gb", "CRD_OUTPUT=/dev/null", "CRD_DEBUG=1", "CRD_FLAGS=" + []string{"--key Eb", "-c s", "-o /dev/null", "--key H"}[idx/5%4], "CRD_ARGS=--key Gb", "CRDFLAGS=-c p"}}, args...)
	} else if route != "" && (opt.Redirect != "" || opt.StdoutKind != "" || opt.Dir != "") {
		opt.Stdin, opt.CPUSec = []byte{}, cpu
		r = c.Crd.Run(opt, args...)
	} else {
		r = runCPU(c, cpu, nil, args...)
	}
	{
		if logPath != "" && r.OK() {
			got := readFileOrNil(logPath)
			if !bytes.HasPrefix(got, logOld) {
				c.Violate(stream, idx, fmt.Sprintf("conv:%s:log-clobbered", k), fmt.Sprintf("`crd info key conv --key %s -c %s >> log`: what the log held before is gone (%d bytes now, %d before)", k, short(chain, 40), len(got), len(logOld)), obs(r))
				return
			}
			r.Stdout = got[len(logOld):]
		}
	}
	c.Eval(1)
	if infra(c, r) {
		return
	}
	if route != "" {
		c.Count("results_through "+route, 1)
	}
	if route == "-o /dev/null" {
		if a := abnormal(r); a != "" || !r.OK() {
			c.Violate(stream, idx, fmt.Sprintf("conv:%s:devnull", k), fmt.Sprintf("info key conv --key %s -c %s --output=/dev/null fails %s", k, short(chain, 40), a), obs(r))
		}
		return
	}
	if toFile && r.OK() {
		r.Stdout = readFileOrNil(outPath)
		c.Count("results_read_from_o_file", 1)
	}
	sig := fmt.Sprintf("conv:%s:%s", k, chain)
	if len(chain) > 8 {
		sig = fmt.Sprintf("conv:%s:len%d", k, len(chain))
	}
	if a := abnormal(r); a != "" {
		c.Violate(stream, idx, sig+":abnormal", fmt.Sprintf("info key conv --key %s -c %s %s", k, chain, a), obs(r))
		return
	}
	want, _ := theory.Chain(k, chain)
	if !r.OK() || len(strings.TrimSpace(string(r.Stdout))) == 0 {
		c.Violate(stream, idx, sig+":failed", fmt.Sprintf("info key conv --key %s -c %s fails; expected %v", k, chain, want), obs(r))
		return
	}
	got := sortedCopy(strings.Fields(string(r.Stdout)))
	if !eqStrs(got, want) {
		c.Violate(stream, idx, sig+":set", fmt.Sprintf("info key conv --key %s -c %s printed %v, the composition of the steps gives %v", k, chain, got, want), obs(r))
		return
	}
	c.Seen("result_sets", strings.Join(got, ","))
	if len(chain) >= 2 && k.String() != "C" && passesEnharmonic(k, chain) {
		c.Nontrivial(k.String() + ":" + chain)
	}
	if c.WantSample() {
		c.Sample(map[string]any{"cmd": fmt.Sprintf("info key conv --key %s -c %s", k, chain), "printed": got})
	}
}

func checkC14(c *core.Ctx) {
	L := c.N(4, 6)
	c.Rule(fmt.Sprintf("exhaustive: 28 supported keys x every chain over {p,r,d,s} of length 1..%d through `info key conv`, plus the laws ds=sd=rr=pp=d^12=s^12=identity asserted on crd's output, plus random chains of length 7..40 and chains of 65,535..100,000 steps; a sample of the results is written with -o (fresh file / existing longer file) and read back; "+
		"the printed key set must equal the fold of the four pitch-class rules expressed as all supported spellings; non-trivial = chain of length >= 2 from a key other than C that passes through an enharmonic slot; distinct by (key, chain)", L))
	c.Assume("theory.ConvertPC / SpellingsOf (pitch-class arithmetic)", "output order is not compared here (C12)")
	c.Exhaustive(!c.Quick()) // the space the property names (chains up to length 6) is swept in thorough
	keys := theory.Supported()
	// "every supported key": keys beyond the 28 that `info key list` reports (C13 allows more) take part too
	if l := run(c, nil, "info", "key", "list"); l.OK() {
		if li, err := yamlList(l.Stdout); err == nil {
			for _, e := range li {
				m, _ := e.(map[string]any)
				ks := asStr(m["key"])
				if k, err := theory.ParseKey(ks); err == nil && !theory.IsSupported(ks) && k.Signature() >= -7 && k.Signature() <= 7 {
					theory.ExtraSupported = append(theory.ExtraSupported, k)
					keys = append(keys, k)
				}
			}
		}
	}
	c.Extra("supported_keys_reported_by_crd", len(keys))
	chains := chainsUpTo(L)
	c.Extra("chain_length_swept", L)
	c.Extra("swept_space", len(keys)*len(chains))
	c.Stream("sweep", len(keys)*len(chains), func(i int, _ *rand.Rand) {
		convCLI(c, "sweep", i, keys[i%len(keys)], chains[i/len(keys)])
	})
	laws := []string{"ds", "sd", "rr", "pp", strings.Repeat("d", 12), strings.Repeat("s", 12), "dddddddddddds", "prpr" + "rprp", "drsr", "dpsp"}
	c.Stream("laws", len(keys)*len(laws), func(i int, _ *rand.Rand) {
		k := keys[i%len(keys)]
		law := laws[i/len(keys)]
		convCLI(c, "laws", i, k, law)
	})
	// very long chains (beyond any line or token buffer): the fold is still cheap to compute
	huge := []int{65535, 65536, 70000, 100000}
	c.Stream("huge", len(huge)*c.N(1, 3), func(i int, r *rand.Rand) {
		n := huge[i%len(huge)]
		k := keys[r.Intn(len(keys))]
		var b strings.Builder
		if i < len(huge) {
			b.WriteString(strings.Repeat("d", n)) // n dominants: n mod 12 fifths up
		} else {
			for j := 0; j < n; j++ {
				b.WriteByte("prds"[r.Intn(4)])
			}
		}
		convCLIOut(c, "huge", i, k, b.String(), false, 300)
	})
	c.Stream("long", c.N(300, 2000), func(i int, r *rand.Rand) {
		k := keys[r.Intn(len(keys))]
		n := 7 + r.Intn(34)
		var b strings.Builder
		for j := 0; j < n; j++ {
			b.WriteByte("prds"[r.Intn(4)])
		}
		convCLI(c, "long", i, k, b.String())
	})
	// chains made of runs: stretches of fifths (1..14 equal steps, up or down) in which single steps cancel, p and r
	// in between now and then - what a uniform draw of letters practically never produces (round 10, C14-mutR10a: a
	// simplifier of cancelling steps that cuts "twelve fifths" too early after a cancellation inside a stretch)
	c.Stream("runs", c.N(400, 4000), func(i int, r *rand.Rand) {
		k := keys[r.Intn(len(keys))]
		var b strings.Builder
		for b.Len() < 10+r.Intn(40) {
			switch r.Intn(8) {
			case 0:
				b.WriteByte("pr"[r.Intn(2)])
			case 1:
				b.WriteString([]string{"ds", "sd", "dds", "ssd", "dsd", "sds", "pp", "rr"}[r.Intn(8)])
			default:
				b.WriteString(strings.Repeat(string("ds"[r.Intn(2)]), 1+r.Intn(14)))
			}
		}
		convCLI(c, "runs", i, k, b.String())
	})
}
