package main

import (
	"fmt"
	"math/rand"
	"sort"
	"strings"
	"sync"

	"verif/core"
	"verif/runner"
	"verif/theory"
)

func init() { register("C03", checkC03) }

// letterInterval returns (number, size) of the interval from a up to b as the
// property defines it: number = ascending letter distance + 1, size = natural
// ascending letter distance in semitones + accidental difference.
func letterInterval(a, b theory.Note) (int, int) {
	la, lb := theory.LetterIndex(a.Letter), theory.LetterIndex(b.Letter)
	n := (lb-la+7)%7 + 1
	na := theory.Note{Letter: a.Letter}.Pitch()
	nb := theory.Note{Letter: b.Letter}.Pitch()
	d := (nb - na + 12) % 12
	return n, d + b.Acc - a.Acc
}

type convChord struct {
	degree, base string
	hasBase      bool
	name         string
}

// parseConvOutput reads the instances printed by text conv.
func parseConvOutput(b []byte) ([]map[string]any, error) {
	l, err := yamlList(b)
	if err != nil {
		return nil, err
	}
	var r []map[string]any
	for _, e := range l {
		m, ok := e.(map[string]any)
		if !ok {
			return nil, fmt.Errorf("instance is not a mapping")
		}
		r = append(r, m)
	}
	return r, nil
}

func chordOf(inst map[string]any) (convChord, bool) {
	ch, ok := inst["chord"].(map[string]any)
	if !ok {
		return convChord{}, false
	}
	c := convChord{degree: asStr(ch["degree"]), name: asStr(ch["name"])}
	if b, ok := ch["base"]; ok && b != nil {
		c.base = asStr(b)
		c.hasBase = true
	}
	return c, true
}

func inScale(k theory.Key, n theory.Note) (int, bool) {
	for i, s := range k.Scale() {
		if s == n {
			return i, true
		}
	}
	return 0, false
}

func checkC03(c *core.Ctx) {
	c.Rule("exhaustive: 28 keys x 21 root spellings x (no bass + 21 bass spellings) = 12,936 single chords through `text conv syllable --key K` (thorough: again with {key=K} on the chord, with a symbol, with the key set by a preceding rest or chord, with unicode accidentals, and after two modulations between keys of the same letter; quick samples those); " +
		"success => degree number = letter distance + 1 and size = pitch distance (same for the bass, measured from the root); scale notes must be accepted; " +
		"non-trivial = accepted chord in a key other than C; distinct by (key, root, bass, variant)")
	c.Assume("theory.Size, letter arithmetic of letterInterval", "theory.ParseNotation reads crd's degree notation", "yaml.v3 as reader")
	c.Exhaustive(true)
	keys := theory.Supported()
	sp := theory.AllSpellings()
	variants := 1
	if !c.Quick() {
		variants = 17
	}
	per := len(sp) * (len(sp) + 1)
	total := len(keys) * per
	c.Extra("swept_space", total*variants)
	type acceptedChord struct {
		root         theory.Note
		bass         *theory.Note
		degree, base string
	}
	accepted := map[string][]acceptedChord{}
	var acceptedMu sync.Mutex
	nCases := total * variants
	if c.Quick() {
		nCases = total + 7000 // the full --key sweep plus a seeded sample of the carried-key variants
	}
	c.Stream("sweep", nCases, func(i int, rr *rand.Rand) {
		variant := i / total
		j := i % total
		if c.Quick() && i >= total {
			variant = 3 + rr.Intn(14)
			j = rr.Intn(total)
		}
		k := keys[j/per]
		root := sp[(j%per)/(len(sp)+1)]
		bi := (j % per) % (len(sp) + 1)
		var bass *theory.Note
		if bi > 0 {
			bass = &sp[bi-1]
		}
		text := root.String()
		if variant == 2 {
			text += "m7"
		}
		if bass != nil {
			text += "/" + bass.String()
		}
		text += "[1]"
		args := []string{"text", "conv", "syllable", "--key", k.String()}
		if variant == 1 {
			text += "{key=" + k.String() + "}"
			args = []string{"text", "conv", "syllable"}
		}
		// the key in force was set earlier: on a preceding rest (3) or on a preceding chord (4)
		lead := 0
		if variant == 3 {
			text = "R[1]{key=" + k.String() + "} " + text
			args = []string{"text", "conv", "syllable", "--key", keys[(j/per+5)%len(keys)].String()}
			lead = 1
		}
		if variant == 4 {
			text = k.Tonic.String() + "[1]{key=" + k.String() + "} R[2] " + text
			args = []string{"text", "conv", "syllable"}
			lead = 2
		}
		// the key given inside braces with blanks around the entries (7)
		if variant == 7 {
			text += "{ bpm=120,\tkey=" + k.String() + "}"
			args = []string{"text", "conv", "syllable"}
		}
		// the accidentals written with the unicode signs the lexer equally accepts (5)
		if variant == 5 {
			text = strings.NewReplacer("#", "♯", "b", "♭").Replace(text)
		}
		// two modulations in a row: first to the key with the same letter and mode but another accidental (6)
		if variant == 6 {
			sib := ""
			for _, o := range keys {
				if o.Tonic.Letter == k.Tonic.Letter && o.Minor == k.Minor && o.Tonic.Acc != k.Tonic.Acc {
					sib = o.String()
				}
			}
			if sib == "" {
				sib = keys[(j/per+9)%len(keys)].String()
			}
			text = "R[1]{key=" + sib + "} R[1]{key=" + k.String() + "} " + text
			args = []string{"text", "conv", "syllable"}
			lead = 2
		}
		// a unicode accidental sign that straddles a 4096-byte boundary of the input (8): comment lines in front
		viaFile := false
		if variant == 8 {
			text = strings.NewReplacer("#", "♯", "b", "♭").Replace(text)
			if idx := strings.IndexAny(text, "♯♭"); idx >= 0 {
				target := 4096*(1+j%3) - 1 - j%2 - idx // the sign starts at byte 4094 or 4095 (mod 4096)
				var h strings.Builder
				for h.Len() < target {
					n := min(target-h.Len(), 80)
					if rest := target - h.Len() - n; rest == 1 {
						n-- // never leave a single byte for the last line (a line needs ';' and a line feed)
					}
					h.WriteString(";" + strings.Repeat("-", n-2) + "\n")
				}
				text = h.String() + text
				viaFile = j%4 >= 2
			}
		}
		// the key in force was reached from a key with the same tonic pitch but another spelling or mode (9)
		if variant == 9 {
			var twins []string
			for _, o := range keys {
				if o != k && (o.TonicOffset()-k.TonicOffset())%12 == 0 {
					twins = append(twins, o.String())
				}
			}
			if len(twins) > 0 {
				tw := twins[j%len(twins)]
				if j%2 == 0 {
					text = "R[1]{key=" + k.String() + "} " + text
					args = []string{"text", "conv", "syllable", "--key", tw}
					lead = 1
				} else {
					text = "R[1]{key=" + tw + "} R[1]{key=" + k.String() + "} " + text
					args = []string{"text", "conv", "syllable"}
					lead = 2
				}
			}
		}
		// a rest announces one key, the chord right after it announces its own (10)
		if variant == 10 {
			other := keys[(j/per+3+j%11)%len(keys)].String()
			text = "R[1]{key=" + other + "} R[2] " + text + "{key=" + k.String() + "}"
			args = []string{"text", "conv", "syllable"}
			lead = 2
		}
		// --debug must not change the answer (11): before the subcommands or after them
		if variant == 11 {
			if j%2 == 0 {
				args = append([]string{"--debug"}, args...)
			} else {
				args = append(args, "--debug")
			}
		}
		// the key stated twice in one pair of braces, first another one: the entry stated last counts, it is the one
		// the printed instance carries (12)
		if variant == 12 {
			other := keys[(j/per+7+j%5)%len(keys)].String()
			text += "{key=" + other + ",key=" + k.String() + "}"
			args = []string{"text", "conv", "syllable"}
		}
		// entries crd has no meaning for (free metadata) next to the key, with names that sort before and after it (13)
		if variant == 13 {
			text += [][2]string{{"{capo=2,key=", "}"}, {"{author=x,bar=1,key=", ",zz=top}"}, {"{1=one,Key=H,key=", "}"}, {"{key=", ",capo=3}"}}[j%4][0] + k.String() + [][2]string{{"{capo=2,key=", "}"}, {"{author=x,bar=1,key=", ",zz=top}"}, {"{1=one,Key=H,key=", "}"}, {"{key=", ",capo=3}"}}[j%4][1]
			args = []string{"text", "conv", "syllable"}
		}
		// blanks are blanks: every white space character of Unicode separates like a space - behind the name of the
		// key entry, in front of its value (14), and between the letter of a root or bass and its accidental (15)
		exotic := []string{"\f", "\v", "\u0085", "\u00a0", "\u2003", "\u2028", "\u3000", "\u202f", "\u1680"}
		if variant == 14 {
			ws := exotic[j%len(exotic)]
			text += "{key" + ws + "=" + []string{"", ws, " "}[j%3] + k.String() + "}"
			args = []string{"text", "conv", "syllable"}
		}
		if variant == 15 {
			ws := exotic[j%len(exotic)]
			text = strings.NewReplacer("#", ws+"#", "b", ws+"b").Replace(text)
		}
		// the same chord was converted a moment ago in another key with the same tonic pitch (the enharmonic twin where
		// there is one: C# before Db, F# before Gb, D#m before Ebm) or the same tonic letter: nothing of the earlier
		// conversion may stick (16; round 10, C03-mutR10a: degrees memoised per root until the tonic's pitch changes)
		if variant == 16 {
			twin := ""
			for _, o := range keys {
				if o.String() != k.String() && o.Minor == k.Minor && ((o.Tonic.Pitch()-k.Tonic.Pitch())%12+12)%12 == 0 {
					twin = o.String()
				}
			}
			if twin == "" {
				for _, o := range keys {
					if o.String() != k.String() && ((o.Tonic.Pitch()-k.Tonic.Pitch())%12+12)%12 == 0 {
						twin = o.String() // the parallel key
					}
				}
			}
			if twin == "" {
				twin = keys[(j/per+3)%len(keys)].String()
			}
			text = text + " " + text + "{key=" + k.String() + "}"
			args = []string{"text", "conv", "syllable", "--key", twin}
			lead = 1
		}
		var r *runner.Result
		if viaFile {
			r = run(c, nil, append(append([]string{}, args...), c.Scratch.File("c03.txt", []byte(text)))...)
		} else {
			r = run(c, []byte(text), args...)
		}
		c.Eval(1)
		if infra(c, r) {
			return
		}
		sig := fmt.Sprintf("v%d:%s:%s", variant, k, short(text[max(0, len(text)-60):], 60))
		if a := abnormal(r); a != "" {
			c.Violate("sweep", i, sig+":abnormal", fmt.Sprintf("text conv syllable --key %s of %q %s", k, text, a), obs(r))
			return
		}
		wn, ws := letterInterval(k.Tonic, root)
		_, rootIn := inScale(k, root)
		bassIn := false
		if bass != nil {
			_, bassIn = inScale(k, *bass)
		}
		if !r.OK() {
			c.Count("refused", 1)
			if rootIn && (bass == nil || bassIn) && variant != 16 { // 16: the first chord is written in another key, which may refuse it
				c.Violate("sweep", i, sig+":refused", fmt.Sprintf("key %s: %q uses only notes of the key's own scale but is refused", k, text), obs(r))
			}
			return
		}
		inst, err := parseConvOutput(r.Stdout)
		if err != nil || len(inst) != 1+lead {
			c.Violate("sweep", i, sig+":output", fmt.Sprintf("key %s: %q: output is not %d instance(s)", k, text, 1+lead), obs(r))
			return
		}
		ch, ok := chordOf(inst[lead])
		if !ok {
			c.Violate("sweep", i, sig+":nochord", fmt.Sprintf("key %s: %q: no chord in the output", k, text), obs(r))
			return
		}
		d, err := theory.ParseNotation(ch.degree)
		if err != nil {
			c.Violate("sweep", i, sig+":degree-unreadable", fmt.Sprintf("key %s: %q: degree %q unreadable", k, text, ch.degree), obs(r))
			return
		}
		gs, okSize := theory.Size(d.N, d.Q)
		if d.N != wn || !okSize || gs != ws {
			c.Violate("sweep", i, sig+":degree", fmt.Sprintf("key %s: root %s converted to degree %s (number %d, %d semitones); the note is number %d, %d semitones above the tonic", k, root, ch.degree, d.N, gs, wn, ws), obs(r))
			return
		}
		if bass != nil {
			if !ch.hasBase {
				c.Violate("sweep", i, sig+":nobase", fmt.Sprintf("key %s: %q: bass missing in the output", k, text), obs(r))
				return
			}
			b, err := theory.ParseNotation(ch.base)
			if err != nil {
				c.Violate("sweep", i, sig+":base-unreadable", fmt.Sprintf("key %s: %q: base %q unreadable", k, text, ch.base), obs(r))
				return
			}
			bn, bs := letterInterval(root, *bass)
			gb, okb := theory.Size(b.N, b.Q)
			if b.N != bn || !okb || gb != bs {
				c.Violate("sweep", i, sig+":base", fmt.Sprintf("key %s: bass %s over %s converted to %s (number %d, %d semitones); it is number %d, %d semitones above the root", k, bass, root, ch.base, b.N, gb, bn, bs), obs(r))
				return
			}
		} else if ch.hasBase {
			c.Violate("sweep", i, sig+":phantom-base", fmt.Sprintf("key %s: %q: output has a base %q that was not written", k, text, ch.base), obs(r))
			return
		}
		c.Count("accepted", 1)
		if variant == 0 {
			acceptedMu.Lock()
			accepted[k.String()] = append(accepted[k.String()], acceptedChord{root, bass, ch.degree, ch.base})
			acceptedMu.Unlock()
		}
		if k.String() != "C" {
			c.Nontrivial(sig)
		}
		if rootIn {
			c.Count("in_scale_roots_accepted", 1)
		}
		if c.WantSample() {
			c.Sample(map[string]any{"key": k.String(), "text": text, "degree": ch.degree, "base": ch.base})
		}
	})

	// every accepted chord of a key again, all in one text and in shuffled order: the answer for a chord must
	// not depend on the chords converted before it
	if c.OnlyStream == "" || c.OnlyStream == "batch" {
		reps := c.N(2, 6)
		c.Stream("batch", len(keys)*reps, func(i int, r *rand.Rand) {
			k := keys[i%len(keys)]
			acceptedMu.Lock()
			list := append([]acceptedChord(nil), accepted[k.String()]...)
			acceptedMu.Unlock()
			if len(list) < 10 {
				return
			}
			// a deterministic order first, then shuffle (the map above was filled concurrently)
			sort.Slice(list, func(a, b int) bool {
				x, y := list[a], list[b]
				xs, ys := x.root.String(), y.root.String()
				if x.bass != nil {
					xs += "/" + x.bass.String()
				}
				if y.bass != nil {
					ys += "/" + y.bass.String()
				}
				return xs < ys
			})
			r.Shuffle(len(list), func(a, b int) { list[a], list[b] = list[b], list[a] })
			// every other case is a long piece (more than 4300 chords, hundreds of slash chords) whose key is stated
			// once, on the first chord, while --key names another key: the modulation has to last to the end
			long := (i/len(keys))%2 == 1
			argKey := k.String()
			if long {
				one := append([]acceptedChord(nil), list...)
				for len(list) < 4300 {
					r.Shuffle(len(one), func(a, b int) { one[a], one[b] = one[b], one[a] })
					list = append(list, one...)
				}
				argKey = keys[(i+11)%len(keys)].String()
			}
			var b strings.Builder
			for j, ch := range list {
				b.WriteString(ch.root.String())
				if ch.bass != nil {
					b.WriteString("/" + ch.bass.String())
				}
				b.WriteString("[1]")
				if long && j == 0 {
					b.WriteString("{key=" + k.String() + "}")
				}
				b.WriteString(" ")
			}
			res := run(c, []byte(b.String()), "text", "conv", "syllable", "--key", argKey)
			c.Eval(1)
			if infra(c, res) {
				return
			}
			sig := "batch:" + k.String()
			if a := abnormal(res); a != "" || !res.OK() {
				c.Violate("batch", i, sig+":refused", fmt.Sprintf("key %s: a text made of %d chords that are each accepted alone is refused %s", k, len(list), a), obs(res))
				return
			}
			inst, err := parseConvOutput(res.Stdout)
			if err != nil || len(inst) != len(list) {
				c.Violate("batch", i, sig+":count", fmt.Sprintf("key %s: %d chords written, %d instances printed", k, len(list), len(inst)), nil)
				return
			}
			for j, ch := range list {
				got, _ := chordOf(inst[j])
				if got.degree != ch.degree || got.base != ch.base {
					txt := ch.root.String()
					if ch.bass != nil {
						txt += "/" + ch.bass.String()
					}
					c.Violate("batch", i, sig+":differs", fmt.Sprintf("key %s: chord %s converts to degree %s base %q alone, but to degree %s base %q as chord %d of a longer text", k, txt, ch.degree, ch.base, got.degree, got.base, j+1), nil)
					return
				}
			}
			c.Nontrivial(fmt.Sprintf("batch:%s:%d", k, i))
			c.Count("chords_rechecked_in_batches", len(list))
		})
	}
}
