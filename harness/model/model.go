// Package model is the harness's own description of a piece of music and its
// renderings (instances YAML, degree text, note-name text). It is the
// "generating model" the oracles compare crd's outputs with.
package model

import (
	"encoding/json"
	"fmt"
	"math/big"
	"math/rand"
	"sort"
	"strconv"
	"strings"
	"unicode/utf8"

	"verif/theory"
)

// Frac is one duration fraction.
type Frac struct {
	Num, Den uint64
}

func (f Frac) String() string {
	if f.Den == 1 {
		return strconv.FormatUint(f.Num, 10)
	}
	return fmt.Sprintf("%d/%d", f.Num, f.Den)
}

func (f Frac) meterText(pad bool) string {
	return zp(strconv.FormatUint(f.Num, 10), pad) + "/" + zp(strconv.FormatUint(f.Den, 10), pad)
}

func (f Frac) Rat() *big.Rat {
	return new(big.Rat).SetFrac(new(big.Int).SetUint64(f.Num), new(big.Int).SetUint64(f.Den))
}

// ChordSpec is one chord of the model.
type ChordSpec struct {
	Deg    theory.Interval
	Symbol string // lookup key of the chord dictionary (name or display)
	Bass   *theory.Interval
	// Semis overrides the dictionary lookup (user dictionaries, C16)
	Semis []int
	// AltDeg / AltBass write a diminished perfect-class interval with a single b
	// ("b5" instead of "bb5"), the other spelling the notation admits.
	AltDeg, AltBass bool
}

// YAMLNotation is the interval notation used in instances YAML.
func YAMLNotation(i theory.Interval, alt bool) string {
	if alt && i.Q == theory.Diminished {
		s := (i.N-1)%7 + 1
		if s == 1 || s == 4 || s == 5 {
			return "b" + strconv.Itoa(i.N)
		}
	}
	return i.Notation()
}

// Instance is a chord or a rest with its settings.
type Instance struct {
	Chord    *ChordSpec
	Values   []Frac
	BPM      uint64 // 0 = absent
	Meter    *Frac
	Velocity string
	Key      string
	Meta     map[string]string // txt, lic, mrk and others
}

// Flags are the `crd write` overrides.
type Flags struct {
	Key      string
	BPM      uint64
	Meter    string
	Velocity string
	Track    int // 0 = flag absent (1 track)
	Instr    *string
	Program  *int
}

func (f Flags) Args() []string {
	var a []string
	if f.Key != "" {
		a = append(a, "--key", f.Key)
	}
	if f.BPM != 0 {
		a = append(a, "--bpm", strconv.FormatUint(f.BPM, 10))
	}
	if f.Meter != "" {
		a = append(a, "--meter", f.Meter)
	}
	if f.Velocity != "" {
		a = append(a, "--velocity", f.Velocity)
	}
	if f.Track != 0 {
		a = append(a, "--track", strconv.Itoa(f.Track))
	}
	if f.Instr != nil {
		a = append(a, "--instrument="+*f.Instr)
	}
	if f.Program != nil {
		a = append(a, "--program", strconv.Itoa(*f.Program))
	}
	return a
}

func (f Flags) Tracks() int {
	if f.Track == 0 {
		return 1
	}
	return f.Track
}

type Piece struct {
	Inst []Instance
}

// ------------------------------------------------------------ YAML rendering

// isPrintableForYAML tells whether every rune may stand literally in a YAML scalar (tab and printable runes).
func isPrintableForYAML(s string) bool {
	for _, r := range s {
		if r == '\t' {
			continue
		}
		if r < 0x20 || r == 0x7f || (r >= 0x80 && r <= 0x9f) || r == 0xfeff || r == 0xfffe || r == 0xffff || r == utf8.RuneError {
			return false
		}
	}
	return true
}

func jstr(s string) string {
	var b strings.Builder
	enc := json.NewEncoder(&b)
	enc.SetEscapeHTML(false)
	enc.Encode(s)
	return strings.TrimRight(b.String(), "\n")
}

// YAMLStyle selects syntactic variation of the rendering (same meaning).
type YAMLStyle struct {
	PlainNumbers bool // write whole-number values and bpm unquoted
	FlowValues   bool
	JSON         bool
	ZeroPad      bool // write numerals with leading zeros ("010/03", bpm 0120, degree 012): still decimal
	RawTabs      bool // a tab inside a text is written as the tab character itself (single-quoted scalar) instead of an escape
	Anchors      bool // repeated texts, symbols and keys as aliases of their first occurrence; one metadata pair through a merge key
}

// zp pads a decimal numeral with leading zeros (deterministically, by its own digits).
func zp(s string, on bool) string {
	if !on || s == "" {
		return s
	}
	return strings.Repeat("0", 1+len(s)%3) + s
}

func (f Frac) padded(on bool) string {
	if !on {
		return f.String()
	}
	if f.Den == 1 {
		return zp(strconv.FormatUint(f.Num, 10), true)
	}
	return zp(strconv.FormatUint(f.Num, 10), true) + "/" + zp(strconv.FormatUint(f.Den, 10), true)
}

// YAML renders the piece as an instances document.
func (p Piece) YAML(st YAMLStyle) []byte {
	if st.JSON {
		return p.jsonDoc()
	}
	var b strings.Builder
	// Anchors: a text that occurred before is written as an alias of its first occurrence
	anchors := map[string]string{}
	scalar := func(v string) string {
		if st.RawTabs && strings.Contains(v, "\t") && !strings.ContainsAny(v, "\n\r\u2028\u2029\u0085") && isPrintableForYAML(v) {
			// single-quoted: everything is literal, a quote is doubled
			return "'" + strings.ReplaceAll(v, "'", "''") + "'"
		}
		if !st.Anchors || v == "" {
			return jstr(v)
		}
		if a, ok := anchors[v]; ok {
			return "*" + a
		}
		a := fmt.Sprintf("a%d", len(anchors)+1)
		anchors[v] = a
		return "&" + a + " " + jstr(v)
	}
	// Anchors: a list item that is repeated exactly later on gets an anchor, the repeats are aliases of the whole item
	itemKey := func(in Instance) string {
		k, _ := json.Marshal(in)
		return string(k)
	}
	repeats, itemAnchor := map[string]int{}, map[string]string{}
	if st.Anchors {
		for _, in := range p.Inst {
			repeats[itemKey(in)]++
		}
	}
	for _, in := range p.Inst {
		first := true
		if st.Anchors {
			k := itemKey(in)
			if a, ok := itemAnchor[k]; ok {
				b.WriteString("- *" + a + "\n")
				continue
			}
			if repeats[k] > 1 {
				a := fmt.Sprintf("i%d", len(itemAnchor)+1)
				itemAnchor[k] = a
				b.WriteString("- &" + a + "\n")
				first = false
			}
		}
		item := func(s string) {
			if first {
				b.WriteString("- " + s + "\n")
				first = false
			} else {
				b.WriteString("  " + s + "\n")
			}
		}
		if c := in.Chord; c != nil {
			item("chord:")
			dn := YAMLNotation(c.Deg, c.AltDeg)
			if st.ZeroPad && dn[0] >= '0' && dn[0] <= '9' {
				// a bare number, zero-padded and unquoted: still the decimal number as written
				b.WriteString("    degree: " + zp(dn, true) + "\n")
			} else {
				b.WriteString("    degree: " + jstr(dn) + "\n")
			}
			b.WriteString("    name: " + scalar(c.Symbol) + "\n")
			if c.Bass != nil {
				bn := YAMLNotation(*c.Bass, c.AltBass)
				if st.ZeroPad && bn[0] >= '0' && bn[0] <= '9' {
					b.WriteString("    base: " + zp(bn, true) + "\n")
				} else {
					b.WriteString("    base: " + jstr(bn) + "\n")
				}
			}
		}
		val := func(f Frac) string {
			if st.PlainNumbers && f.Den == 1 {
				return f.padded(st.ZeroPad)
			}
			return jstr(f.padded(st.ZeroPad))
		}
		if st.FlowValues {
			var vs []string
			for _, v := range in.Values {
				vs = append(vs, val(v))
			}
			item("values: [" + strings.Join(vs, ", ") + "]")
		} else {
			item("values:")
			for _, v := range in.Values {
				b.WriteString("    - " + val(v) + "\n")
			}
		}
		if in.BPM != 0 {
			if st.PlainNumbers {
				item("bpm: " + zp(strconv.FormatUint(in.BPM, 10), st.ZeroPad))
			} else {
				item("bpm: " + jstr(zp(strconv.FormatUint(in.BPM, 10), st.ZeroPad)))
			}
		}
		if in.Velocity != "" {
			item("velocity: " + in.Velocity)
		}
		if in.Meter != nil {
			item("meter: " + jstr(Frac{in.Meter.Num, in.Meter.Den}.meterText(st.ZeroPad)))
		}
		if in.Key != "" {
			item("key: " + scalar(in.Key))
		}
		if in.Meta != nil {
			keys := make([]string, 0, len(in.Meta))
			for k := range in.Meta {
				keys = append(keys, k)
			}
			sort.Strings(keys)
			if len(keys) == 0 {
				item("meta: {}")
			} else {
				item("meta:")
				if st.Anchors && len(keys) >= 2 {
					// the first pair arrives through a merge key
					b.WriteString("    <<: {" + jstr(keys[0]) + ": " + scalar(in.Meta[keys[0]]) + "}\n")
					keys = keys[1:]
				}
				for _, k := range keys {
					b.WriteString("    " + jstr(k) + ": " + scalar(in.Meta[k]) + "\n")
				}
			}
		}
	}
	return []byte(b.String())
}

func (p Piece) jsonDoc() []byte {
	var list []map[string]any
	for _, in := range p.Inst {
		m := map[string]any{}
		if c := in.Chord; c != nil {
			cm := map[string]any{"degree": YAMLNotation(c.Deg, c.AltDeg), "name": c.Symbol}
			if c.Bass != nil {
				cm["base"] = YAMLNotation(*c.Bass, c.AltBass)
			}
			m["chord"] = cm
		}
		var vs []string
		for _, v := range in.Values {
			vs = append(vs, v.String())
		}
		m["values"] = vs
		if in.BPM != 0 {
			m["bpm"] = in.BPM
		}
		if in.Velocity != "" {
			m["velocity"] = in.Velocity
		}
		if in.Meter != nil {
			m["meter"] = fmt.Sprintf("%d/%d", in.Meter.Num, in.Meter.Den)
		}
		if in.Key != "" {
			m["key"] = in.Key
		}
		if in.Meta != nil {
			m["meta"] = in.Meta
		}
		list = append(list, m)
	}
	var b strings.Builder
	enc := json.NewEncoder(&b)
	enc.SetEscapeHTML(false)
	enc.Encode(list)
	return []byte(b.String())
}

// ------------------------------------------------------------ expectations

// Settings in force.
type Settings struct {
	BPM      uint64
	Meter    Frac
	Key      string
	Velocity string
}

func DefaultSettings() Settings {
	return Settings{BPM: 100, Meter: Frac{4, 4}, Key: "C", Velocity: "mp"}
}

// Effective returns the piece with the flags folded into instance 0, the way
// the property describes it ("flags replace the first instance's settings only").
func (p Piece) Effective(f Flags) Piece {
	q := Piece{Inst: append([]Instance(nil), p.Inst...)}
	if len(q.Inst) == 0 {
		return q
	}
	in := q.Inst[0]
	if f.Key != "" {
		in.Key = f.Key
	}
	if f.BPM != 0 {
		in.BPM = f.BPM
	}
	if f.Velocity != "" {
		in.Velocity = f.Velocity
	}
	if f.Meter != "" {
		var m Frac
		fmt.Sscanf(f.Meter, "%d/%d", &m.Num, &m.Den)
		in.Meter = &m
	}
	q.Inst[0] = in
	return q
}

// ExpectedNotes returns the MIDI keys of a chord under a key: bass first,
// then the chord tones in definition order (a multiset; order is not part of
// the property).
func ExpectedNotes(c ChordSpec, key string) ([]int, error) {
	k, err := theory.ParseKey(key)
	if err != nil {
		return nil, err
	}
	d, ok := theory.Size(c.Deg.N, c.Deg.Q)
	if !ok {
		return nil, fmt.Errorf("interval %v does not exist", c.Deg)
	}
	root := 60 + k.TonicOffset() + d
	bass := 0
	if c.Bass != nil {
		b, ok := theory.Size(c.Bass.N, c.Bass.Q)
		if !ok {
			return nil, fmt.Errorf("interval %v does not exist", *c.Bass)
		}
		bass = b
	}
	semis := c.Semis
	if semis == nil {
		s, ok := theory.ChordSemis(c.Symbol)
		if !ok {
			return nil, fmt.Errorf("unknown symbol %q", c.Symbol)
		}
		semis = s
	}
	notes := []int{root + bass - 12}
	for _, s := range semis {
		notes = append(notes, root+s)
	}
	return notes, nil
}

// InRange tells whether all notes are MIDI keys.
func InRange(notes []int) bool {
	for _, n := range notes {
		if n < 0 || n > 127 {
			return false
		}
	}
	return true
}

// Lengths returns the admissible tick lengths of an instance for resolution T
// (one value, or two when T*sum is exactly halfway).
func Lengths(T int, vals []Frac) []uint64 {
	sum := new(big.Rat)
	for _, v := range vals {
		sum.Add(sum, v.Rat())
	}
	sum.Mul(sum, new(big.Rat).SetInt64(int64(T)))
	fl := new(big.Int).Quo(sum.Num(), sum.Denom()) // floor for non-negative
	frac := new(big.Rat).Sub(sum, new(big.Rat).SetInt(fl))
	half := big.NewRat(1, 2)
	f := fl.Uint64()
	switch frac.Cmp(half) {
	case -1:
		return []uint64{f}
	case 1:
		return []uint64{f + 1}
	default:
		return []uint64{f, f + 1}
	}
}

// ExactTicks returns T*sum as a rational (for near-halfway classification).
func ExactTicks(T int, vals []Frac) *big.Rat {
	sum := new(big.Rat)
	for _, v := range vals {
		sum.Add(sum, v.Rat())
	}
	return sum.Mul(sum, new(big.Rat).SetInt64(int64(T)))
}

// StartSets returns for every instance the set of admissible start ticks and,
// as last element, the admissible totals.
func StartSets(T int, p Piece) [][]uint64 {
	cur := map[uint64]bool{0: true}
	var out [][]uint64
	for _, in := range p.Inst {
		out = append(out, keysOf(cur))
		next := map[uint64]bool{}
		for _, l := range Lengths(T, in.Values) {
			for s := range cur {
				next[s+l] = true
			}
		}
		cur = next
	}
	out = append(out, keysOf(cur))
	return out
}

func keysOf(m map[uint64]bool) []uint64 {
	var r []uint64
	for k := range m {
		r = append(r, k)
	}
	sort.Slice(r, func(i, j int) bool { return r[i] < r[j] })
	return r
}

func InSet(s []uint64, v uint64) bool {
	for _, x := range s {
		if x == v {
			return true
		}
	}
	return false
}

// ------------------------------------------------------------ text rendering

// DegreeTextExpressible tells whether the degree text notation (number plus at
// most one # or b) can write the interval.
func DegreeTextExpressible(i theory.Interval) bool {
	switch i.Q {
	case theory.Major, theory.Perfect, theory.Minor, theory.Augmented:
		return true
	case theory.Diminished:
		// a single b on a perfect-class number is "diminished"
		s := (i.N-1)%7 + 1
		return s == 1 || s == 4 || s == 5
	}
	return false
}

// DegreeText writes the interval in chord-text degree notation: number first,
// accidental after it.
func DegreeText(i theory.Interval) string {
	n := strconv.Itoa(i.N)
	switch i.Q {
	case theory.Minor, theory.Diminished:
		return n + "b"
	case theory.Augmented:
		return n + "#"
	}
	return n
}

// SymbolText writes the chord symbol so that it lexes: an underscore is needed
// whenever the first rune would start another token.
func SymbolText(sym string, forceUnderscore bool) string {
	if sym == "" {
		return ""
	}
	if forceUnderscore || NeedsUnderscore(sym) {
		return "_" + sym
	}
	return sym
}

func NeedsUnderscore(sym string) bool {
	if sym == "" {
		return false
	}
	r := []rune(sym)[0]
	if r >= '0' && r <= '9' {
		return true
	}
	return strings.ContainsRune("CDEFGABRb#♯♭]{},", r)
}

// NoteFor finds the note name with at most one accidental whose letter is the
// interval's number above `from` and whose pitch distance is the interval's
// size. ok=false when it would need a double accidental.
func NoteFor(from theory.Note, i theory.Interval) (theory.Note, bool) {
	size, ok := theory.Size(i.N, i.Q)
	if !ok {
		return theory.Note{}, false
	}
	li := (theory.LetterIndex(from.Letter) + i.N - 1) % 7
	l := theory.Letters[li]
	oct := (i.N - 1) / 7
	natural := theory.Note{Letter: l}
	// ascending distance from `from` to the natural letter, plus octaves
	d := natural.Pitch() - from.Pitch()
	if li < theory.LetterIndex(from.Letter) {
		d += 12
	}
	d += 12 * oct
	acc := size - d
	if acc < -1 || acc > 1 {
		return theory.Note{}, false
	}
	return theory.Note{Letter: l, Acc: acc}, true
}

// ValuesText renders the [..] part.
func ValuesText(vals []Frac) string { return ValuesTextPad(vals, false) }

func ValuesTextPad(vals []Frac, pad bool) string {
	var s []string
	for _, v := range vals {
		s = append(s, v.padded(pad))
	}
	return "[" + strings.Join(s, ",") + "]"
}

// MetaPairsPad is MetaPairs with zero-padded bpm and meter numerals.
func (in Instance) MetaPairsPad(pad bool) [][2]string {
	p := in.MetaPairs()
	if !pad {
		return p
	}
	for i := range p {
		switch p[i][0] {
		case "bpm":
			p[i][1] = zp(p[i][1], true)
		case "mtr":
			if in.Meter != nil {
				p[i][1] = in.Meter.meterText(true)
			}
		}
	}
	return p
}

// MetaPairs lists the {k=v} pairs an instance needs in chord text, in a fixed
// order (settings first, then free metadata sorted by key).
func (in Instance) MetaPairs() [][2]string {
	var p [][2]string
	if in.Key != "" {
		p = append(p, [2]string{"key", in.Key})
	}
	if in.BPM != 0 {
		p = append(p, [2]string{"bpm", strconv.FormatUint(in.BPM, 10)})
	}
	if in.Meter != nil {
		p = append(p, [2]string{"mtr", fmt.Sprintf("%d/%d", in.Meter.Num, in.Meter.Den)})
	}
	if in.Velocity != "" {
		p = append(p, [2]string{"vel", in.Velocity})
	}
	keys := make([]string, 0, len(in.Meta))
	for k := range in.Meta {
		keys = append(keys, k)
	}
	sort.Strings(keys)
	for _, k := range keys {
		p = append(p, [2]string{k, in.Meta[k]})
	}
	return p
}

func MetaText(pairs [][2]string) string {
	if len(pairs) == 0 {
		return ""
	}
	var s []string
	for _, kv := range pairs {
		s = append(s, kv[0]+"="+kv[1])
	}
	return "{" + strings.Join(s, ",") + "}"
}

// TextOpts controls rendering to chord text.
type TextOpts struct {
	Underscore bool   // always write _ before symbols
	Sep        string // between instances
	UnicodeAcc bool   // write accidentals of roots and basses with the unicode signs
	ZeroPad    bool   // write the numerals of durations, bpm and meter with leading zeros
	// DupSettings states every setting (key, bpm, mtr, vel) twice inside its braces, first with another valid value:
	// the entry stated last is the one that counts
	DupSettings bool
}

// dupSettings puts an overridden twin in front of every setting.
func dupSettings(pairs [][2]string, on bool) [][2]string {
	if !on {
		return pairs
	}
	var out [][2]string
	for _, kv := range pairs {
		other := ""
		switch kv[0] {
		case "key":
			other = "G"
			if kv[1] == "G" {
				other = "Dm"
			}
		case "bpm":
			other = "77"
			if strings.TrimLeft(kv[1], "0") == "77" {
				other = "78"
			}
		case "mtr":
			other = "5/8"
			if strings.Contains(kv[1], "5") {
				other = "7/16"
			}
		case "vel":
			other = "pp"
			if kv[1] == "pp" {
				other = "ff"
			}
		}
		if other != "" {
			out = append(out, [2]string{kv[0], other})
		}
		out = append(out, kv)
	}
	return out
}

func uni(s string, on bool) string {
	if !on {
		return s
	}
	return strings.NewReplacer("#", "♯", "b", "♭").Replace(s)
}

// uniDegree rewrites only the accidental that follows the number.
func uniDegree(s string, on bool) string {
	if !on || len(s) == 0 {
		return s
	}
	switch s[len(s)-1] {
	case '#':
		return s[:len(s)-1] + "♯"
	case 'b':
		return s[:len(s)-1] + "♭"
	}
	return s
}

// uniNote rewrites the accidental of a note name (the letter B stays a letter).
func uniNote(n theory.Note, on bool) string {
	s := n.String()
	if !on || len(s) < 2 {
		return s
	}
	return s[:1] + uni(s[1:], true)
}

// DegreeTextPiece renders the piece in degree notation. ok=false if some
// interval cannot be written.
func (p Piece) DegreeTextPiece(o TextOpts) (string, bool) {
	var parts []string
	for _, in := range p.Inst {
		var b strings.Builder
		if c := in.Chord; c != nil {
			if !DegreeTextExpressible(c.Deg) || (c.Bass != nil && !DegreeTextExpressible(*c.Bass)) {
				return "", false
			}
			b.WriteString(uniDegree(DegreeText(c.Deg), o.UnicodeAcc))
			b.WriteString(SymbolText(c.Symbol, o.Underscore))
			if c.Bass != nil {
				b.WriteString("/" + uniDegree(DegreeText(*c.Bass), o.UnicodeAcc))
			}
		} else {
			b.WriteString("R")
		}
		b.WriteString(ValuesTextPad(in.Values, o.ZeroPad))
		b.WriteString(MetaText(dupSettings(in.MetaPairsPad(o.ZeroPad), o.DupSettings)))
		parts = append(parts, b.String())
	}
	sep := o.Sep
	if sep == "" {
		sep = " "
	}
	return strings.Join(parts, sep), true
}

// SyllableTextPiece renders the piece with note names; the key in force starts
// at startKey and follows the Key settings of the instances. ok=false if a
// chord needs a double accidental.
func (p Piece) SyllableTextPiece(startKey string, o TextOpts) (string, bool) {
	key, err := theory.ParseKey(startKey)
	if err != nil {
		return "", false
	}
	var parts []string
	for _, in := range p.Inst {
		if in.Key != "" {
			k, err := theory.ParseKey(in.Key)
			if err != nil {
				return "", false
			}
			key = k
		}
		var b strings.Builder
		if c := in.Chord; c != nil {
			root, ok := NoteFor(key.Tonic, c.Deg)
			if !ok {
				return "", false
			}
			b.WriteString(uniNote(root, o.UnicodeAcc))
			b.WriteString(SymbolText(c.Symbol, o.Underscore))
			if c.Bass != nil {
				bn, ok := NoteFor(root, *c.Bass)
				if !ok {
					return "", false
				}
				b.WriteString("/" + uniNote(bn, o.UnicodeAcc))
			}
		} else {
			b.WriteString("R")
		}
		b.WriteString(ValuesTextPad(in.Values, o.ZeroPad))
		b.WriteString(MetaText(dupSettings(in.MetaPairsPad(o.ZeroPad), o.DupSettings)))
		parts = append(parts, b.String())
	}
	sep := o.Sep
	if sep == "" {
		sep = " "
	}
	return strings.Join(parts, sep), true
}

// ------------------------------------------------------------ generators

var Dynamics = []string{"pp", "p", "mp", "mf", "f", "ff"}

// Denominators used for durations.
var Dens = []uint64{1, 1, 1, 2, 2, 3, 4, 4, 5, 6, 7, 8, 9, 12, 16, 32, 64, 128, 480, 960, 1920, 3840,
	11, 13, 17, 19, 23, 29, 31, 37, 41, 43, 47, 53, 59, 61, 67, 71, 73, 79, 83, 89, 97, 10007, 999983}

// RandFrac draws one duration fraction; the result is at least minTicks/T long
// in exact arithmetic when minTicks > 0.
func RandFrac(r *rand.Rand) Frac {
	den := Dens[r.Intn(len(Dens))]
	var num uint64
	switch r.Intn(4) {
	case 0:
		num = 1
	case 1:
		num = uint64(1 + r.Intn(8))
	default:
		num = uint64(1 + r.Intn(64))
	}
	if den > 1000 {
		num = uint64(1+r.Intn(64)) * (den / 16)
		if num == 0 {
			num = 1
		}
	}
	return Frac{num, den}
}

// RandValues draws 1..4 fractions whose exact sum is >= 1 tick at T=960.
func RandValues(r *rand.Rand) []Frac {
	for {
		n := 1
		switch r.Intn(6) {
		case 0, 1:
			n = 2
		case 2:
			n = 3
		case 3:
			n = 1 + r.Intn(4)
		}
		var vs []Frac
		for i := 0; i < n; i++ {
			vs = append(vs, RandFrac(r))
		}
		// at least 2 ticks and not absurdly long
		x := ExactTicks(960, vs)
		if x.Cmp(big.NewRat(2, 1)) >= 0 && x.Cmp(big.NewRat(960*80, 1)) <= 0 {
			return vs
		}
	}
}

// ManyFractions draws 5..9 fractions with large, mostly distinct denominators (their product
// exceeds 64 bits, their sum stays small).
func ManyFractions(r *rand.Rand) []Frac {
	dens := []uint64{960, 1920, 1000, 1001, 1024, 999, 997, 3840, 10007, 4096, 729, 625, 2401, 1331}
	n := 5 + r.Intn(5)
	var vs []Frac
	for i := 0; i < n; i++ {
		d := dens[r.Intn(len(dens))]
		vs = append(vs, Frac{uint64(1 + r.Intn(int(d))), d})
	}
	return vs
}

// TinyValues are value lists whose exact tick count at T=960 rounds to 0 or is at most 2 ticks.
var TinyValues = [][]Frac{
	{{1, 4096}}, {{1, 2000}}, {{1, 5000}, {1, 6000}}, {{1, 1921}}, {{1, 1919}}, {{1, 960}}, {{1, 3840}, {1, 3840}}, {{1, 100000}}, {{2, 960}}, {{1, 640}},
}

// HalfwayValues are value lists whose exact tick count at T=960 is k+1/2.
var HalfwayValues = [][]Frac{
	{{1, 1920}, {1, 1}},
	{{3, 1920}},
	{{1, 3840}, {1, 3840}, {1, 2}},
	{{5, 1920}, {1, 4}},
	{{1, 1920}, {1, 3}, {2, 3}},
	{{641, 1280}},
	{{7, 1920}, {1, 960}},
}

var degreeNumbers15 = func() []theory.Interval { return theory.AllIntervals(15) }()

// RandInterval draws an existing interval with number <= maxN.
func RandInterval(r *rand.Rand, maxN int) theory.Interval {
	for {
		i := degreeNumbers15[r.Intn(len(degreeNumbers15))]
		if i.N <= maxN {
			return i
		}
	}
}

// SimpleInterval draws an interval writable in degree text (and most often in note names).
func SimpleInterval(r *rand.Rand, maxN int) theory.Interval {
	for {
		i := RandInterval(r, maxN)
		if DegreeTextExpressible(i) {
			return i
		}
	}
}

// RandSymbol draws a lookup key of the built-in dictionary.
func RandSymbol(r *rand.Rand) string {
	keys := theory.SymbolKeys()
	return keys[r.Intn(len(keys))]
}

func RandKey(r *rand.Rand) string {
	ks := theory.Supported()
	return ks[r.Intn(len(ks))].String()
}

// Texts is the corpus of metadata strings (valid UTF-8).
var Texts = []string{
	"hello", "a b c", "x", "0", "123", "1e3", "0x10", "yes", "no", "null", "~", "true", "on", "off",
	"007", "01", "00", "0010", "1_000", "+1", "1.0", ".5", "0o17", "0b1", "12:30", "2001-12-14", "\"quoted\"", "'single'", "'n' roll",
	": colon", "# hash", "- dash", "? q", "* star", "& amp", "! bang", "| pipe", "> gt", "' quote", "\" dq", "% pct", "@ at", "` tick",
	"key: value", "a #b", "[x]", "{y}", "a, b", "a=b", "trailing ", "  leading", "tab\there", "line\nbreak", "cr\r\nlf",
	"日本語のテキスト", "émoji 😀 ok", "é combining", " nbsp", " ls", "Ünïcödé", "ﬃ ligature", "\U0001d11e clef",
	strings.Repeat("long text ", 25), strings.Repeat("é", 130), strings.Repeat("x", 127), strings.Repeat("y", 128), strings.Repeat("z", 300),
	"<html>&amp;</html>", "\\backslash\\n", "---", "...", "- - -", "!!str x", "*alias", "&anchor", "%YAML 1.2", "? complex", "|", ">", "''", "\"\"",
	" ", "\t", "a\u0000b", "\nleading newline", "\ttab then\nnewline", "two\n\nbreaks\n",
}

// TextSafeForChordText reports whether the string can be carried as a {} value
// in chord text under the documented tokenisation: no `{ } = ,`, no leading
// white space (it is skipped), not empty, no NUL-like surprises.
func TextSafeForChordText(s string) bool {
	if s == "" || strings.ContainsAny(s, "{}=,") {
		return false
	}
	// blanks at either end of a key or value are trivia in chord text
	rs := []rune(s)
	if isSpace(rs[0]) || isSpace(rs[len(rs)-1]) {
		return false
	}
	return true
}

func isSpace(r rune) bool {
	switch r {
	case '\t', '\n', '\v', '\f', '\r', ' ', 0x85, 0xA0, 0x1680, 0x2028, 0x2029, 0x202f, 0x205f, 0x3000:
		return true
	}
	return r >= 0x2000 && r <= 0x200a
}

func RandText(r *rand.Rand) string {
	for {
		s := Texts[r.Intn(len(Texts))]
		if s != "" {
			return s
		}
	}
}

// GenOpts steers RandPiece.
type GenOpts struct {
	MinLen, MaxLen int
	RestProb       float64
	SettingProb    float64 // per instance probability of each setting
	TextProb       float64
	KeyChanges     bool
	MaxDeg         int  // largest degree number
	SimpleOnly     bool // only intervals expressible in degree text
	BassProb       float64
	Halfway        bool // allow halfway values
	Tiny           bool // allow instances of (almost) no duration
	TextSafe       bool // only texts that chord text can carry
	NoSettings     bool
	Symbols        []string
}

// RandPiece generates a piece whose chords all stay inside the MIDI range under
// every key that can be in force (checked by the caller for flags).
func RandPiece(r *rand.Rand, o GenOpts) Piece {
	n := o.MinLen
	if o.MaxLen > o.MinLen {
		n += r.Intn(o.MaxLen - o.MinLen + 1)
	}
	if o.MaxDeg == 0 {
		o.MaxDeg = 15
	}
	var p Piece
	for i := 0; i < n; i++ {
		var in Instance
		if r.Float64() >= o.RestProb {
			c := &ChordSpec{}
			if o.SimpleOnly {
				c.Deg = SimpleInterval(r, o.MaxDeg)
			} else {
				c.Deg = RandInterval(r, o.MaxDeg)
			}
			if o.Symbols != nil {
				c.Symbol = o.Symbols[r.Intn(len(o.Symbols))]
			} else {
				c.Symbol = RandSymbol(r)
			}
			if r.Float64() < o.BassProb {
				var b theory.Interval
				if o.SimpleOnly {
					b = SimpleInterval(r, 8)
				} else {
					b = RandInterval(r, 9)
				}
				c.Bass = &b
			}
			c.AltDeg = r.Intn(2) == 0
			c.AltBass = r.Intn(2) == 0
			in.Chord = c
		}
		if o.Tiny && r.Intn(12) == 0 {
			in.Values = append([]Frac(nil), TinyValues[r.Intn(len(TinyValues))]...)
		} else if o.Halfway && r.Intn(8) == 0 {
			in.Values = append([]Frac(nil), HalfwayValues[r.Intn(len(HalfwayValues))]...)
		} else {
			in.Values = RandValues(r)
		}
		if !o.NoSettings {
			if r.Float64() < o.SettingProb {
				in.BPM = RandBPM(r)
			}
			if r.Float64() < o.SettingProb {
				m := RandMeter(r)
				in.Meter = &m
			}
			if r.Float64() < o.SettingProb {
				in.Velocity = Dynamics[r.Intn(len(Dynamics))]
			}
			if o.KeyChanges && r.Float64() < o.SettingProb {
				in.Key = RandKey(r)
			}
			for _, k := range []string{"txt", "lic", "mrk"} {
				if r.Float64() < o.TextProb {
					if in.Meta == nil {
						in.Meta = map[string]string{}
					}
					for {
						t := RandText(r)
						if !o.TextSafe || TextSafeForChordText(t) {
							in.Meta[k] = t
							break
						}
					}
				}
			}
			// free metadata of a chord text whose names resemble the settings (the settings are bpm, vel, mtr, key - spelled
			// exactly so): they stay free metadata
			if o.TextSafe && o.TextProb > 0 && r.Intn(8) == 0 {
				if in.Meta == nil {
					in.Meta = map[string]string{}
				}
				kv := [][2]string{{"meter", "3/4"}, {"velocity", "ff"}, {"Key", "Em"}, {"KEY", "F#m"}, {"Bpm", "77"}, {"tempo", "90"}, {"Vel", "pp"}, {"Mtr", "6/8"}, {"BPM", "200"}, {"keys", "D"}}[r.Intn(10)]
				in.Meta[kv[0]] = kv[1]
			}
			// metadata entries that are spelled like settings: in an instances document only the fields of an
			// instance are settings, the metadata map is free text (chord text is different: there {key=G} is the setting)
			if !o.TextSafe && o.TextProb > 0 && r.Intn(12) == 0 {
				if in.Meta == nil {
					in.Meta = map[string]string{}
				}
				switch r.Intn(6) {
				case 0:
					in.Meta["key"] = RandKey(r)
				case 1:
					in.Meta["bpm"] = "77"
				case 2:
					in.Meta[[]string{"mtr", "meter"}[r.Intn(2)]] = "3/8"
				case 3:
					in.Meta[[]string{"vel", "velocity"}[r.Intn(2)]] = "ff"
				case 4:
					in.Meta["key"] = "H"
				default:
					in.Meta["values"] = "0/0"
				}
			}
		}
		p.Inst = append(p.Inst, in)
	}
	// a bar that comes back: a later instance repeats an earlier one exactly (written as an alias of the earlier
	// list item by the Anchors style)
	if len(p.Inst) >= 3 && r.Intn(4) == 0 {
		j := r.Intn(len(p.Inst) - 1)
		k := j + 1 + r.Intn(len(p.Inst)-j-1)
		p.Inst[k] = p.Inst[j].Clone()
	}
	return p
}

// Clone is a deep copy.
func (in Instance) Clone() Instance {
	out := in
	if in.Chord != nil {
		c := *in.Chord
		if c.Bass != nil {
			b := *c.Bass
			c.Bass = &b
		}
		c.Semis = append([]int(nil), c.Semis...)
		out.Chord = &c
	}
	out.Values = append([]Frac(nil), in.Values...)
	if in.Meter != nil {
		m := *in.Meter
		out.Meter = &m
	}
	if in.Meta != nil {
		out.Meta = map[string]string{}
		for k, v := range in.Meta {
			out.Meta[k] = v
		}
	}
	return out
}

// RandBPM is log-uniform over the representable range 4..60,000,000.
func RandBPM(r *rand.Rand) uint64 {
	if r.Intn(12) == 0 {
		// the tempi a program is likely to hold as its default
		return []uint64{100, 120, 60, 90}[r.Intn(4)]
	}
	switch r.Intn(10) {
	case 0:
		if r.Intn(2) == 0 {
			// next to the tempi whose microseconds per quarter note are exactly halfway between two whole numbers
			u := uint64(1 + r.Intn(8))
			return 120000000/(2*u+1) + uint64(r.Intn(5)) - 2
		}
		return []uint64{4, 5, 7, 60, 100, 120, 59999999, 60000000, 16777216, 3600}[r.Intn(10)]
	case 1, 2, 3:
		// log uniform
		e := r.Float64() * 7.7
		v := uint64(1)
		for i := 0.0; i < e; i++ {
			v *= 10
		}
		v = 4 + uint64(r.Int63n(int64(v)))
		if v > 60000000 {
			v = 60000000
		}
		return v
	default:
		return uint64(30 + r.Intn(300))
	}
}

// RandMeter draws n/2^k with n in 1..255, k in 0..7.
func RandMeter(r *rand.Rand) Frac {
	n := uint64(1 + r.Intn(12))
	if r.Intn(5) == 0 {
		n = uint64(1 + r.Intn(255))
	}
	k := uint(r.Intn(5))
	if r.Intn(6) == 0 {
		k = uint(r.Intn(8))
	}
	return Frac{n, 1 << k}
}

// KeysInForce returns, per instance, the key in force (after Effective()).
func (p Piece) KeysInForce() []string {
	cur := "C"
	out := make([]string, len(p.Inst))
	for i, in := range p.Inst {
		if in.Key != "" {
			cur = in.Key
		}
		out[i] = cur
	}
	return out
}

// AllInRange checks every chord of the (effective) piece against the MIDI range.
func (p Piece) AllInRange() bool {
	keys := p.KeysInForce()
	for i, in := range p.Inst {
		if in.Chord == nil {
			continue
		}
		n, err := ExpectedNotes(*in.Chord, keys[i])
		if err != nil || !InRange(n) {
			return false
		}
	}
	return true
}

// TotalBelow reports whether the largest admissible total stays below limit ticks.
func (p Piece) TotalBelow(T int, limit uint64) bool {
	s := StartSets(T, p)
	tot := s[len(s)-1]
	return tot[len(tot)-1] < limit
}
