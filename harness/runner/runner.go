// Package runner executes the crd binary as a child process and records what
// happened at the process boundary.
package runner

import (
	"bytes"
	"context"
	"fmt"
	"io"
	"os"
	"os/exec"
	"path/filepath"
	"runtime/debug"
	"strconv"
	"strings"
	"sync"
	"sync/atomic"
	"syscall"
	"time"
	"unsafe"
)

// Result is the observation of one child run.
type Result struct {
	Argv     []string
	Stdout   []byte
	Stderr   []byte
	Exit     int // exit status, -1 if signalled
	Signal   int // terminating signal, 0 if none
	CPUms    int64
	MaxRSSKB int64 // peak resident set of the child (ru_maxrss)
	WallKill bool  // the wall-clock watchdog fired (=> inconclusive, never a verdict)
	Blocked  bool  // killed because it consumed no CPU at all over several samples while unfinished: everything in it is blocked
	StartErr error
}

// OK is true when the process exited with status 0.
func (r *Result) OK() bool { return r.StartErr == nil && r.Signal == 0 && r.Exit == 0 && !r.WallKill }

// CPUHang is true when the CPU-seconds limit killed the child.
func (r *Result) CPUHang() bool {
	return r.Blocked || r.Signal == int(syscall.SIGXCPU) || (r.Signal == int(syscall.SIGKILL) && !r.WallKill)
}

// Crashed reports a Go runtime panic / fatal error / foreign signal.
func (r *Result) Crashed() (bool, string) {
	if r.WallKill {
		return false, ""
	}
	if r.Signal != 0 && !r.CPUHang() {
		return true, fmt.Sprintf("killed by signal %d", r.Signal)
	}
	for _, m := range []string{"panic: ", "fatal error: ", "goroutine 1 [", "runtime error:", "[signal SIG"} {
		if bytes.Contains(r.Stderr, []byte(m)) {
			return true, "stderr contains " + strconv.Quote(m)
		}
	}
	if r.Exit == 2 && bytes.Contains(r.Stderr, []byte("goroutine ")) {
		return true, "exit status 2 with goroutine dump"
	}
	// a panic inside a String/Error method is swallowed by fmt and printed as %!s(PANIC=...): still a panic
	for _, out := range [][]byte{r.Stdout, r.Stderr} {
		if i := bytes.Index(out, []byte("(PANIC=")); i >= 2 && out[i-2] == '%' || i >= 3 && out[i-3] == '%' {
			return true, "output contains a panic swallowed by fmt: " + strconv.Quote(string(out[max(0, i-3):min(len(out), i+50)]))
		}
	}
	return false, ""
}

// Runner runs one binary.
type Runner struct {
	Bin       string
	CPUSec    int           // CPU seconds limit per child
	Wall      time.Duration // wall-clock watchdog
	Env       []string      // extra environment
	MaxOut    int           // cap on captured bytes per stream
	IdleAfter time.Duration // when to start sampling a lingering child for "blocked" (default 25 s)
	Runs      atomic.Int64
	WallHits  atomic.Int64
}

func New(bin string) *Runner {
	return &Runner{Bin: bin, CPUSec: 10, Wall: 180 * time.Second, MaxOut: 8 << 20}
}

type capBuf struct {
	b   bytes.Buffer
	max int
}

func (c *capBuf) Write(p []byte) (int, error) {
	if room := c.max - c.b.Len(); room > 0 {
		if len(p) > room {
			c.b.Write(p[:room])
		} else {
			c.b.Write(p)
		}
	}
	return len(p), nil
}

// pieceReader hands out its bytes in pieces, pausing before every piece but the first, so that the
// child sees several short reads on its standard input.
type pieceReader struct {
	b     []byte
	piece int
	off   int
	delay time.Duration // before the first byte (and before the end of an empty input): a producer that starts late
}

func (p *pieceReader) Read(out []byte) (int, error) {
	if p.delay > 0 {
		time.Sleep(p.delay)
		p.delay = 0
	}
	if p.off >= len(p.b) {
		return 0, io.EOF
	}
	if p.off > 0 {
		time.Sleep(30 * time.Millisecond)
	}
	n := p.piece
	if n < 1 {
		n = 1
	}
	if n > len(out) {
		n = len(out)
	}
	if p.off+n > len(p.b) {
		n = len(p.b) - p.off
	}
	copy(out, p.b[p.off:p.off+n])
	p.off += n
	return n, nil
}

// Opt modifies a single run.
type Opt struct {
	Stdin  []byte
	Dir    string
	Env    []string
	CPUSec int
	Bin    string
	// Redirect is a shell redirection applied to the child by the wrapper shell, e.g. ">/dev/full",
	// ">&-" (standard output closed) or "<&-" (standard input closed). One of a few constants, never input-derived.
	Redirect string
	// NoFile lowers the open-file limit of the child (ulimit -n), 0 = unchanged.
	NoFile int
	// FileBlocks limits the size of any regular file the child writes (ulimit -f, 512-byte blocks), 0 = unlimited.
	FileBlocks int
	// DataKB limits the data segment of the child (ulimit -d: heap and private writable mappings, KiB), 0 = unlimited.
	// It stands for a machine with that much memory to give: a child that needs more dies with a runtime fatal error.
	DataKB int
	// StdinPieces > 1 delivers Stdin in that many pieces with a pause between them (a producer that is slower
	// than crd: reads return short).
	StdinPieces int
	// StdoutKind "socket": the standard output of the child is a socket instead of a pipe; "pty": a pseudo terminal.
	StdoutKind string
	// StdinDelay makes the producer of the standard input start late: nothing arrives (and the pipe stays open) for
	// that long. It is a property of the environment, never part of a verdict.
	StdinDelay time.Duration
	// StdinKind selects what the child's standard input is: "" or "pipe" (default), "file" (a regular file
	// at offset 0), "fileoffset" (a regular file whose first line another reader has consumed already),
	// "socket" (one end of a socket pair), "eio" (the bytes, then a read error instead of end of input: the
	// master side of a pseudo terminal whose other side wrote them and was closed), "pty" (a terminal: the bytes are typed, then the end-of-file key as
	// often as the reader asks, up to 40 times) or "pty1" (the end-of-file key is pressed exactly once).
	StdinKind string
	// IdleAfter overrides the runner's delay before a lingering child is sampled for "blocked".
	IdleAfter time.Duration
}

// Run executes the binary with args. Stdin nil means /dev/null.
func (r *Runner) Run(o Opt, args ...string) *Result {
	r.Runs.Add(1)
	cpu := r.CPUSec
	if o.CPUSec > 0 {
		cpu = o.CPUSec
	}
	bin := r.Bin
	if o.Bin != "" {
		bin = o.Bin
	}
	ctx, cancel := context.WithTimeout(context.Background(), r.Wall)
	defer cancel()
	limits := fmt.Sprintf("ulimit -t %d", cpu)
	if o.NoFile > 0 {
		limits += fmt.Sprintf("; ulimit -n %d", o.NoFile)
	}
	if o.FileBlocks > 0 {
		limits += fmt.Sprintf("; ulimit -f %d", o.FileBlocks)
	}
	if o.DataKB > 0 {
		limits += fmt.Sprintf("; ulimit -d %d", o.DataKB)
	}
	shArgs := append([]string{"-c", fmt.Sprintf("%s; exec \"$0\" \"$@\" %s", limits, o.Redirect), bin}, args...)
	cmd := exec.CommandContext(ctx, "/bin/sh", shArgs...)
	cmd.Dir = o.Dir
	// no usable temporary directory: crd has no business creating temporary files
	cmd.Env = append([]string{"PATH=/usr/bin:/bin", "HOME=/nonexistent", "LANG=C", "TMPDIR=/nonexistent/verif-no-tmpdir"}, r.Env...)
	cmd.Env = append(cmd.Env, o.Env...)
	var after []func()
	defer func() {
		for _, f := range after {
			f()
		}
	}()
	if o.Stdin != nil && o.StdinKind != "" && o.StdinKind != "pipe" {
		f, cleanup, err := specialStdin(o.StdinKind, o.Stdin)
		if err != nil {
			return &Result{Argv: append([]string{}, args...), StartErr: err, Exit: -1}
		}
		after = append(after, cleanup)
		cmd.Stdin = f
	} else if o.Stdin != nil {
		if o.StdinPieces > 1 || o.StdinDelay > 0 {
			n := max(o.StdinPieces, 1)
			cmd.Stdin = &pieceReader{b: o.Stdin, piece: (len(o.Stdin) + n - 1) / n, delay: o.StdinDelay}
		} else {
			cmd.Stdin = bytes.NewReader(o.Stdin)
		}
	}
	so := &capBuf{max: r.MaxOut}
	se := &capBuf{max: r.MaxOut}
	cmd.Stdout = so
	cmd.Stderr = se
	var sockDone chan struct{}
	if o.StdoutKind == "socket" {
		// the standard output of the child is one end of a socket pair (as under inetd, or `crd ... | nc`): a path like
		// /dev/stdout cannot be opened then, writing to the descriptor works as ever
		fds, err := syscall.Socketpair(syscall.AF_UNIX, syscall.SOCK_STREAM, 0)
		if err != nil {
			return &Result{Argv: append([]string{}, args...), StartErr: err, Exit: -1}
		}
		child := os.NewFile(uintptr(fds[0]), "socket-stdout")
		cmd.Stdout = child
		sockDone = make(chan struct{})
		go func() {
			defer close(sockDone)
			buf := make([]byte, 65536)
			for {
				n, err := syscall.Read(fds[1], buf)
				if n > 0 {
					so.Write(buf[:n])
				}
				if err == syscall.EINTR {
					continue
				}
				if err != nil || n <= 0 {
					return
				}
			}
		}()
		after = append(after, func() { syscall.Close(fds[1]) })
	}
	if o.StdoutKind == "pty" {
		// the standard output of the child is a (pseudo) terminal; what it prints is read from the master side, with
		// the output processing of the line discipline switched off
		m, t, err := openPty()
		if err != nil {
			return &Result{Argv: append([]string{}, args...), StartErr: err, Exit: -1}
		}
		cmd.Stdout = t
		sockDone = make(chan struct{})
		go func() {
			defer close(sockDone)
			buf := make([]byte, 65536)
			for {
				n, err := m.Read(buf)
				if n > 0 {
					so.Write(buf[:n])
				}
				if err != nil {
					return // EIO once the last descriptor of the terminal side is closed
				}
			}
		}()
		after = append(after, func() { m.Close() })
	}
	res := &Result{Argv: append([]string{}, args...)}
	err := cmd.Start()
	if err == nil {
		done := make(chan error, 1)
		go func() { done <- cmd.Wait() }()
		err = r.supervise(cmd, done, res, o.IdleAfter)
	}
	if sockDone != nil {
		cmd.Stdout.(*os.File).Close()
		if o.StdoutKind == "pty" {
			// the master never sees an end of file while we hold it: give the reader a moment, then close it
			select {
			case <-sockDone:
			case <-time.After(300 * time.Millisecond):
			}
		} else {
			<-sockDone
		}
	}
	res.Stdout = so.b.Bytes()
	res.Stderr = se.b.Bytes()
	if cmd.ProcessState != nil {
		res.CPUms = (cmd.ProcessState.UserTime() + cmd.ProcessState.SystemTime()).Milliseconds()
		if ru, ok := cmd.ProcessState.SysUsage().(*syscall.Rusage); ok && ru != nil {
			res.MaxRSSKB = ru.Maxrss
		}
		ws := cmd.ProcessState.Sys().(syscall.WaitStatus)
		if ws.Signaled() {
			res.Exit = -1
			res.Signal = int(ws.Signal())
		} else {
			res.Exit = ws.ExitStatus()
		}
	} else if err != nil {
		res.StartErr = err
		res.Exit = -1
	}
	if ctx.Err() != nil && !res.Blocked {
		res.WallKill = true
		r.WallHits.Add(1)
	}
	return res
}

// supervise waits for the child. A child that is still there after IdleAfter is sampled: if its
// CPU time (utime+stime from /proc) does not advance at all over three consecutive samples while it
// is sleeping, nothing in it can make progress any more (its stdin is fully written and closed by
// then) and it is killed and reported as Blocked. A child that keeps consuming CPU is left to the
// CPU-time rlimit; the wall-clock limit of the context only ever yields "inconclusive".
func (r *Runner) supervise(cmd *exec.Cmd, done chan error, res *Result, override time.Duration) error {
	idleAfter := r.IdleAfter
	if override > 0 {
		idleAfter = override
	}
	if idleAfter == 0 {
		idleAfter = 25 * time.Second
	}
	select {
	case err := <-done:
		return err
	case <-time.After(idleAfter):
	}
	pid := cmd.Process.Pid
	last, lastOK := procCPU(pid)
	still := 0
	for {
		select {
		case err := <-done:
			return err
		case <-time.After(2 * time.Second):
		}
		cur, ok := procCPU(pid)
		if ok && lastOK && cur == last && procSleeping(pid) {
			still++
		} else {
			still = 0
		}
		last, lastOK = cur, ok
		if still >= 3 {
			res.Blocked = true
			cmd.Process.Kill()
			return <-done
		}
	}
}

// procCPU returns utime+stime (clock ticks) of a process.
func procCPU(pid int) (uint64, bool) {
	b, err := os.ReadFile(fmt.Sprintf("/proc/%d/stat", pid))
	if err != nil {
		return 0, false
	}
	// fields after the parenthesised command name
	i := bytes.LastIndexByte(b, ')')
	if i < 0 {
		return 0, false
	}
	f := strings.Fields(string(b[i+1:]))
	if len(f) < 13 {
		return 0, false
	}
	u, err1 := strconv.ParseUint(f[11], 10, 64)
	st, err2 := strconv.ParseUint(f[12], 10, 64)
	if err1 != nil || err2 != nil {
		return 0, false
	}
	// include all threads' time: /proc/pid/stat already aggregates the thread group
	return u + st, true
}

// procSleeping reports whether every thread of the process is sleeping (state S) - none running or in disk wait.
func procSleeping(pid int) bool {
	ents, err := os.ReadDir(fmt.Sprintf("/proc/%d/task", pid))
	if err != nil {
		return false
	}
	for _, e := range ents {
		b, err := os.ReadFile(fmt.Sprintf("/proc/%d/task/%s/stat", pid, e.Name()))
		if err != nil {
			continue
		}
		i := bytes.LastIndexByte(b, ')')
		if i < 0 || i+2 >= len(b) {
			return false
		}
		if st := b[i+2]; st != 'S' {
			return false
		}
	}
	return true
}

// Scratch is a private temporary directory removed by Close.
type Scratch struct {
	Dir string
	n   atomic.Int64
}

func NewScratch(prefix string) (*Scratch, error) {
	d, err := os.MkdirTemp("", "verif-"+prefix+"-")
	if err != nil {
		return nil, err
	}
	return &Scratch{Dir: d}, nil
}

func (s *Scratch) Close() { os.RemoveAll(s.Dir) }

// File writes content into a fresh file and returns its path.
func (s *Scratch) File(name string, content []byte) string {
	p := filepath.Join(s.Dir, fmt.Sprintf("%d-%s", s.n.Add(1), name))
	if err := os.WriteFile(p, content, 0o644); err != nil {
		panic(err)
	}
	return p
}

// Path returns a fresh path that does not exist yet.
func (s *Scratch) Path(name string) string {
	return filepath.Join(s.Dir, fmt.Sprintf("%d-%s", s.n.Add(1), name))
}

// Parallel runs f(i) for i in [0,n) on w workers. A panic in a worker is
// re-raised in the caller after all workers stopped (so that the driver can
// report it as a harness failure instead of dying with a raw goroutine dump).
func Parallel(n, w int, f func(i int)) {
	if w < 1 {
		w = 1
	}
	var next atomic.Int64
	var wg sync.WaitGroup
	var mu sync.Mutex
	var failure any
	for k := 0; k < w; k++ {
		wg.Add(1)
		go func() {
			defer wg.Done()
			defer func() {
				if p := recover(); p != nil {
					mu.Lock()
					if failure == nil {
						failure = fmt.Sprintf("%v\n%s", p, debug.Stack())
					}
					mu.Unlock()
					next.Store(int64(n)) // stop handing out work
				}
			}()
			for {
				i := int(next.Add(1) - 1)
				if i >= n {
					return
				}
				f(i)
			}
		}()
	}
	wg.Wait()
	if failure != nil {
		panic(failure)
	}
}

// ShellQuote renders argv for replay files / messages.
func ShellQuote(args []string) string {
	var b strings.Builder
	for i, a := range args {
		if i > 0 {
			b.WriteByte(' ')
		}
		b.WriteString("'" + strings.ReplaceAll(a, "'", `'\''`) + "'")
	}
	return b.String()
}

// specialStdin prepares a standard input that is not a pipe.
func specialStdin(kind string, data []byte) (*os.File, func(), error) {
	switch kind {
	case "file", "fileoffset":
		f, err := os.CreateTemp("", "verif-stdin-")
		if err != nil {
			return nil, nil, err
		}
		prefix := ""
		if kind == "fileoffset" {
			prefix = "title: this line was read by somebody else before crd started\n"
		}
		if _, err := f.WriteString(prefix); err == nil {
			_, err = f.Write(data)
		}
		if _, err := f.Seek(int64(len(prefix)), io.SeekStart); err != nil {
			f.Close()
			os.Remove(f.Name())
			return nil, nil, err
		}
		return f, func() { f.Close(); os.Remove(f.Name()) }, nil
	case "socket":
		fds, err := syscall.Socketpair(syscall.AF_UNIX, syscall.SOCK_STREAM, 0)
		if err != nil {
			return nil, nil, err
		}
		child := os.NewFile(uintptr(fds[0]), "socket-stdin")
		done := make(chan struct{})
		go func() {
			defer close(done)
			b := data
			for len(b) > 0 {
				n, err := syscall.Write(fds[1], b)
				if err != nil || n <= 0 {
					break
				}
				b = b[n:]
			}
			syscall.Shutdown(fds[1], syscall.SHUT_WR)
		}()
		return child, func() { child.Close(); syscall.Shutdown(fds[1], syscall.SHUT_RDWR); <-done; syscall.Close(fds[1]) }, nil
	case "eio":
		return eioStdin(data)
	case "pty":
		return ptyStdin(data, 40)
	case "pty1":
		return ptyStdin(data, 1)
	}
	return nil, nil, fmt.Errorf("unknown stdin kind %q", kind)
}

// PtyTypable tells whether the bytes can be typed on a terminal in canonical mode unchanged: lines of
// at most 1000 bytes, no control characters but line feed.
func PtyTypable(data []byte) bool {
	if len(data) > 3000 {
		return false
	}
	line := 0
	for _, b := range data {
		if b == '\n' {
			line = 0
			continue
		}
		line++
		if b < 0x20 || b == 0x7f || line > 1000 {
			return false
		}
	}
	return true
}

// ptyStdin opens a pseudo terminal, types the data on it (a final line feed is added when missing) followed by
// a run of end-of-file keys, and returns the terminal side for the child.
// openPty opens a pseudo terminal pair (master, terminal side) with output processing off.
func openPty() (*os.File, *os.File, error) {
	m, err := os.OpenFile("/dev/ptmx", os.O_RDWR|syscall.O_NOCTTY, 0)
	if err != nil {
		return nil, nil, err
	}
	var n uint32
	var unlock int32
	if _, _, e := syscall.Syscall(syscall.SYS_IOCTL, m.Fd(), syscall.TIOCSPTLCK, uintptr(unsafe.Pointer(&unlock))); e != 0 {
		m.Close()
		return nil, nil, e
	}
	if _, _, e := syscall.Syscall(syscall.SYS_IOCTL, m.Fd(), syscall.TIOCGPTN, uintptr(unsafe.Pointer(&n))); e != 0 {
		m.Close()
		return nil, nil, e
	}
	t, err := os.OpenFile(fmt.Sprintf("/dev/pts/%d", n), os.O_RDWR|syscall.O_NOCTTY, 0)
	if err != nil {
		m.Close()
		return nil, nil, err
	}
	var tio syscall.Termios
	if _, _, e := syscall.Syscall(syscall.SYS_IOCTL, t.Fd(), syscall.TCGETS, uintptr(unsafe.Pointer(&tio))); e == 0 {
		tio.Oflag &^= syscall.OPOST
		tio.Lflag &^= syscall.ECHO
		syscall.Syscall(syscall.SYS_IOCTL, t.Fd(), syscall.TCSETS, uintptr(unsafe.Pointer(&tio)))
	}
	return m, t, nil
}

func ptyStdin(data []byte, eofKeys int) (*os.File, func(), error) {
	m, err := os.OpenFile("/dev/ptmx", os.O_RDWR|syscall.O_NOCTTY, 0)
	if err != nil {
		return nil, nil, err
	}
	var n uint32
	var unlock int32
	if _, _, e := syscall.Syscall(syscall.SYS_IOCTL, m.Fd(), syscall.TIOCSPTLCK, uintptr(unsafe.Pointer(&unlock))); e != 0 {
		m.Close()
		return nil, nil, e
	}
	if _, _, e := syscall.Syscall(syscall.SYS_IOCTL, m.Fd(), syscall.TIOCGPTN, uintptr(unsafe.Pointer(&n))); e != 0 {
		m.Close()
		return nil, nil, e
	}
	t, err := os.OpenFile(fmt.Sprintf("/dev/pts/%d", n), os.O_RDWR|syscall.O_NOCTTY, 0)
	if err != nil {
		m.Close()
		return nil, nil, err
	}
	var tio syscall.Termios
	if _, _, e := syscall.Syscall(syscall.SYS_IOCTL, t.Fd(), syscall.TCGETS, uintptr(unsafe.Pointer(&tio))); e != 0 {
		m.Close()
		t.Close()
		return nil, nil, e
	}
	tio.Lflag |= syscall.ICANON
	tio.Lflag &^= syscall.ECHO | syscall.ECHOE | syscall.ECHOK | syscall.ECHONL | syscall.ISIG | syscall.IEXTEN
	tio.Iflag &^= syscall.IXON | syscall.IXOFF | syscall.ICRNL | syscall.INLCR | syscall.IGNCR | syscall.ISTRIP
	for _, cc := range []int{syscall.VERASE, syscall.VKILL, syscall.VWERASE, syscall.VLNEXT, syscall.VREPRINT, syscall.VINTR, syscall.VQUIT, syscall.VSUSP, syscall.VSTART, syscall.VSTOP, syscall.VEOL, syscall.VEOL2} {
		tio.Cc[cc] = 0
	}
	tio.Cc[syscall.VEOF] = 4
	if _, _, e := syscall.Syscall(syscall.SYS_IOCTL, t.Fd(), syscall.TCSETS, uintptr(unsafe.Pointer(&tio))); e != 0 {
		m.Close()
		t.Close()
		return nil, nil, e
	}
	stop := make(chan struct{})
	done := make(chan struct{})
	go func() {
		defer close(done)
		b := append([]byte{}, data...)
		if len(b) > 0 && b[len(b)-1] != '\n' {
			b = append(b, '\n')
		}
		// line by line, so that a line never waits behind a full input queue
		for len(b) > 0 {
			i := bytes.IndexByte(b, '\n') + 1
			if _, err := m.Write(b[:i]); err != nil {
				return
			}
			b = b[i:]
		}
		// end of input: a terminal reports it once per key, and a reader may ask again
		for k := 0; k < eofKeys; k++ {
			select {
			case <-stop:
				return
			case <-time.After(25 * time.Millisecond):
			}
			if _, err := m.Write([]byte{4}); err != nil {
				return
			}
		}
	}()
	return t, func() { close(stop); <-done; t.Close(); m.Close() }, nil
}

// eioStdin returns a descriptor that delivers data and then fails with EIO: the master side of a pseudo
// terminal whose terminal side wrote the data (in raw mode) and was closed.
func eioStdin(data []byte) (*os.File, func(), error) {
	m, err := os.OpenFile("/dev/ptmx", os.O_RDWR|syscall.O_NOCTTY, 0)
	if err != nil {
		return nil, nil, err
	}
	var n uint32
	var unlock int32
	if _, _, e := syscall.Syscall(syscall.SYS_IOCTL, m.Fd(), syscall.TIOCSPTLCK, uintptr(unsafe.Pointer(&unlock))); e != 0 {
		m.Close()
		return nil, nil, e
	}
	if _, _, e := syscall.Syscall(syscall.SYS_IOCTL, m.Fd(), syscall.TIOCGPTN, uintptr(unsafe.Pointer(&n))); e != 0 {
		m.Close()
		return nil, nil, e
	}
	t, err := os.OpenFile(fmt.Sprintf("/dev/pts/%d", n), os.O_RDWR|syscall.O_NOCTTY, 0)
	if err != nil {
		m.Close()
		return nil, nil, err
	}
	var tio syscall.Termios
	if _, _, e := syscall.Syscall(syscall.SYS_IOCTL, t.Fd(), syscall.TCGETS, uintptr(unsafe.Pointer(&tio))); e == 0 {
		tio.Oflag &^= syscall.OPOST // no output processing: the bytes arrive as written
		syscall.Syscall(syscall.SYS_IOCTL, t.Fd(), syscall.TCSETS, uintptr(unsafe.Pointer(&tio)))
	}
	if len(data) > 3000 {
		data = data[:3000]
	}
	if _, err := t.Write(data); err != nil {
		t.Close()
		m.Close()
		return nil, nil, err
	}
	t.Close()
	return m, func() { m.Close() }, nil
}
