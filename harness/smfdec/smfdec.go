// Package smfdec is an independent, strict reader of Standard MIDI Files 1.0.
// It shares no code with crd or gomidi. Everything that is not allowed by a
// strict reading of the specification is an error.
package smfdec

import (
	"encoding/binary"
	"fmt"
)

// Kinds of events.
const (
	NoteOn   = "on"
	NoteOff  = "off"
	PolyAT   = "polyat"
	CC       = "cc"
	Program  = "prog"
	ChanAT   = "chanat"
	Bend     = "bend"
	Meta     = "meta"
	Sysex    = "sysex"
	metaEOT  = 0x2F
	MetaText = 0x01
	MetaCopy = 0x02
	MetaName = 0x03
	MetaInst = 0x04
	MetaLyr  = 0x05
	MetaMark = 0x06
	MetaTemp = 0x51
	MetaTSig = 0x58
	MetaKSig = 0x59
	MetaEOT  = metaEOT
)

// Event is one decoded track event.
type Event struct {
	Track int
	Index int // position inside the track
	Tick  uint64
	Delta uint32
	Kind  string
	Ch    byte
	// for channel messages: the data bytes; for meta/sysex: the payload
	Data     []byte
	MetaType byte
	Running  bool // encoded with running status
	VelZero  bool // note-on with velocity 0 reported as NoteOff
}

func (e Event) String() string {
	switch e.Kind {
	case Meta:
		return fmt.Sprintf("trk%d@%d meta %02X %q", e.Track, e.Tick, e.MetaType, e.Data)
	default:
		return fmt.Sprintf("trk%d@%d %s ch%d %v", e.Track, e.Tick, e.Kind, e.Ch, e.Data)
	}
}

// Key returns the note number of a note event.
func (e Event) Key() int { return int(e.Data[0]) }

// Vel returns the velocity of a note event.
func (e Event) Vel() int { return int(e.Data[1]) }

type Track struct {
	Events  []Event
	EndTick uint64 // absolute tick of the end-of-track event
	Bytes   int
}

type File struct {
	Format   int
	NTracks  int
	Division int
	Tracks   []Track
}

type decodeError struct {
	off int
	msg string
}

func (e *decodeError) Error() string { return fmt.Sprintf("smf: offset %d: %s", e.off, e.msg) }

func errAt(off int, f string, a ...any) error {
	return &decodeError{off: off, msg: fmt.Sprintf(f, a...)}
}

// Decode parses b strictly.
func Decode(b []byte) (*File, error) {
	if len(b) < 14 {
		return nil, errAt(0, "file shorter than a header chunk (%d bytes)", len(b))
	}
	if string(b[0:4]) != "MThd" {
		return nil, errAt(0, "missing MThd, got %q", b[0:4])
	}
	if l := binary.BigEndian.Uint32(b[4:8]); l != 6 {
		return nil, errAt(4, "header length %d != 6", l)
	}
	f := &File{
		Format:  int(binary.BigEndian.Uint16(b[8:10])),
		NTracks: int(binary.BigEndian.Uint16(b[10:12])),
	}
	div := binary.BigEndian.Uint16(b[12:14])
	if div&0x8000 != 0 {
		return nil, errAt(12, "SMPTE division %04X not expected", div)
	}
	if div == 0 {
		return nil, errAt(12, "division 0")
	}
	f.Division = int(div)
	if f.Format != 0 && f.Format != 1 {
		return nil, errAt(8, "format %d", f.Format)
	}
	if f.NTracks < 1 {
		return nil, errAt(10, "ntrks %d", f.NTracks)
	}
	if f.Format == 0 && f.NTracks != 1 {
		return nil, errAt(10, "format 0 with %d tracks", f.NTracks)
	}
	off := 14
	for t := 0; t < f.NTracks; t++ {
		if off+8 > len(b) {
			return nil, errAt(off, "track %d: chunk header truncated (declared %d tracks)", t, f.NTracks)
		}
		if string(b[off:off+4]) != "MTrk" {
			return nil, errAt(off, "track %d: expected MTrk, got %q", t, b[off:off+4])
		}
		l := int(binary.BigEndian.Uint32(b[off+4 : off+8]))
		off += 8
		if off+l > len(b) {
			return nil, errAt(off, "track %d: chunk length %d exceeds file", t, l)
		}
		tr, err := decodeTrack(b[off:off+l], off, t)
		if err != nil {
			return nil, err
		}
		tr.Bytes = l
		f.Tracks = append(f.Tracks, *tr)
		off += l
	}
	if off != len(b) {
		return nil, errAt(off, "%d trailing bytes after the last declared track", len(b)-off)
	}
	return f, nil
}

func readVLQ(b []byte, p int, base int) (uint32, int, error) {
	var v uint32
	for i := 0; i < 4; i++ {
		if p+i >= len(b) {
			return 0, 0, errAt(base+p+i, "variable-length quantity truncated")
		}
		c := b[p+i]
		v = v<<7 | uint32(c&0x7F)
		if c&0x80 == 0 {
			return v, p + i + 1, nil
		}
	}
	return 0, 0, errAt(base+p, "variable-length quantity longer than 4 bytes")
}

func decodeTrack(b []byte, base int, trackNo int) (*Track, error) {
	tr := &Track{}
	var (
		p       int
		tick    uint64
		running byte
		ended   bool
	)
	for p < len(b) {
		if ended {
			return nil, errAt(base+p, "track %d: %d bytes after end-of-track", trackNo, len(b)-p)
		}
		delta, np, err := readVLQ(b, p, base)
		if err != nil {
			return nil, fmt.Errorf("track %d delta: %w", trackNo, err)
		}
		p = np
		tick += uint64(delta)
		if p >= len(b) {
			return nil, errAt(base+p, "track %d: event truncated after delta", trackNo)
		}
		ev := Event{Track: trackNo, Index: len(tr.Events), Tick: tick, Delta: delta}
		st := b[p]
		switch {
		case st == 0xFF:
			running = 0
			if p+2 > len(b) {
				return nil, errAt(base+p, "track %d: meta truncated", trackNo)
			}
			ev.Kind = Meta
			ev.MetaType = b[p+1]
			if ev.MetaType >= 0x80 {
				return nil, errAt(base+p+1, "track %d: meta type %02X >= 0x80", trackNo, ev.MetaType)
			}
			l, np, err := readVLQ(b, p+2, base)
			if err != nil {
				return nil, fmt.Errorf("track %d meta length: %w", trackNo, err)
			}
			if np+int(l) > len(b) {
				return nil, errAt(base+np, "track %d: meta payload of %d bytes exceeds chunk", trackNo, l)
			}
			ev.Data = append([]byte(nil), b[np:np+int(l)]...)
			p = np + int(l)
			switch ev.MetaType {
			case metaEOT:
				if l != 0 {
					return nil, errAt(base+p, "track %d: end-of-track with length %d", trackNo, l)
				}
				ended = true
				tr.EndTick = tick
			case MetaTemp:
				if l != 3 {
					return nil, errAt(base+p, "track %d: tempo with length %d", trackNo, l)
				}
			case MetaTSig:
				if l != 4 {
					return nil, errAt(base+p, "track %d: time signature with length %d", trackNo, l)
				}
			case MetaKSig:
				if l != 2 {
					return nil, errAt(base+p, "track %d: key signature with length %d", trackNo, l)
				}
			}
		case st == 0xF0 || st == 0xF7:
			running = 0
			ev.Kind = Sysex
			l, np, err := readVLQ(b, p+1, base)
			if err != nil {
				return nil, fmt.Errorf("track %d sysex length: %w", trackNo, err)
			}
			if np+int(l) > len(b) {
				return nil, errAt(base+np, "track %d: sysex payload exceeds chunk", trackNo)
			}
			ev.Data = append([]byte(nil), b[np:np+int(l)]...)
			p = np + int(l)
		case st >= 0xF0:
			return nil, errAt(base+p, "track %d: system message %02X not allowed in a file", trackNo, st)
		default:
			if st&0x80 != 0 {
				running = st
				p++
			} else {
				if running == 0 {
					return nil, errAt(base+p, "track %d: data byte %02X without running status", trackNo, st)
				}
				st = running
				ev.Running = true
			}
			ev.Ch = st & 0x0F
			n := 2
			switch st & 0xF0 {
			case 0x80:
				ev.Kind = NoteOff
			case 0x90:
				ev.Kind = NoteOn
			case 0xA0:
				ev.Kind = PolyAT
			case 0xB0:
				ev.Kind = CC
			case 0xC0:
				ev.Kind = Program
				n = 1
			case 0xD0:
				ev.Kind = ChanAT
				n = 1
			case 0xE0:
				ev.Kind = Bend
			}
			if p+n > len(b) {
				return nil, errAt(base+p, "track %d: channel message truncated", trackNo)
			}
			for i := 0; i < n; i++ {
				if b[p+i]&0x80 != 0 {
					return nil, errAt(base+p+i, "track %d: data byte %02X >= 0x80 in %s", trackNo, b[p+i], ev.Kind)
				}
			}
			ev.Data = append([]byte(nil), b[p:p+n]...)
			p += n
			if ev.Kind == NoteOn && ev.Data[1] == 0 {
				ev.Kind = NoteOff
				ev.VelZero = true
			}
		}
		tr.Events = append(tr.Events, ev)
	}
	if !ended {
		return nil, errAt(base+p, "track %d: no end-of-track event", trackNo)
	}
	return tr, nil
}

// Structural runs the additional C08 checks on a decoded file and returns a
// list of human readable problems (empty = fine). wantTracks <= 0 disables the
// track-count comparison.
func Structural(f *File, wantTracks int) []string {
	var probs []string
	if wantTracks > 0 {
		if f.NTracks != wantTracks {
			probs = append(probs, fmt.Sprintf("ntrks %d != --track %d", f.NTracks, wantTracks))
		}
		wantFormat := 1
		if wantTracks == 1 {
			wantFormat = 0
		}
		if f.Format != wantFormat {
			probs = append(probs, fmt.Sprintf("format %d for %d tracks", f.Format, wantTracks))
		}
	}
	for ti, tr := range f.Tracks {
		open := map[[2]int]int{}
		for _, e := range tr.Events {
			switch e.Kind {
			case NoteOn:
				open[[2]int{int(e.Ch), e.Key()}]++
			case NoteOff:
				k := [2]int{int(e.Ch), e.Key()}
				if open[k] == 0 {
					probs = append(probs, fmt.Sprintf("track %d tick %d: note-off key %d ch %d without open note-on", ti, e.Tick, e.Key(), e.Ch))
				} else {
					open[k]--
				}
			case Meta:
				if ti != 0 && (e.MetaType == MetaTemp || e.MetaType == MetaTSig || e.MetaType == MetaKSig) {
					probs = append(probs, fmt.Sprintf("track %d tick %d: meta %02X outside the first track", ti, e.Tick, e.MetaType))
				}
			}
		}
		for k, n := range open {
			if n != 0 {
				probs = append(probs, fmt.Sprintf("track %d: %d note-on(s) key %d ch %d never released", ti, n, k[1], k[0]))
			}
		}
	}
	return probs
}
