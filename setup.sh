#!/bin/bash
# MANIFEST.setup_cmd: build the harness once from files on disk (offline), warm the build caches.
set -eu
ROOT="$(cd "$(dirname "$0")" && pwd)"
REPO="${VERIF_REPO:-/repo}"
unset GOSUMDB GOTOOLCHAIN GONOSUMDB GONOSUMCHECK GOWORK
export GOFLAGS=-mod=mod GOPROXY=off
GO=go
if ! (cd "$REPO" && $GO version >/dev/null 2>&1); then export GOTOOLCHAIN=local; GO=go1.26.8; fi
mkdir -p "$ROOT/.build/setup"
cd "$ROOT/harness"
cmp -s "$REPO/go.sum" go.sum || { cp "$REPO/go.sum" go.sum.new && mv -f go.sum.new go.sum; }
$GO build -o "$ROOT/.build/setup/vcheck" ./cmd/vcheck
$GO build -tags verif,verifhook -o "$ROOT/.build/setup/vworker" ./cmd/vworker || $GO build -tags verif -o "$ROOT/.build/setup/vworker" ./cmd/vworker || echo "note: vworker does not build (checks fall back to CLI-only monitors)"
$GO build -race -tags verif,verifhook -o "$ROOT/.build/setup/vworker-race" ./cmd/vworker || true
( cd "$REPO" && $GO build -tags verif -o "$ROOT/.build/setup/crd" ./cmd && $GO build -race -tags verif -o "$ROOT/.build/setup/crd-race" ./cmd )
rm -rf "$ROOT/.build/setup"
echo "setup ok"
