#!/usr/bin/env python3
"""Validates MANIFEST.json and every evidence file against the schemas (run with python3-vt)."""
import json, glob, sys, os
import jsonschema
ROOT = os.path.dirname(os.path.dirname(os.path.abspath(__file__)))
ok = True
def v(path, schema):
    global ok
    try:
        jsonschema.validate(json.load(open(path)), json.load(open(schema)))
        print("valid  ", path)
    except Exception as e:
        ok = False
        print("INVALID", path, str(e)[:300])
v(os.path.join(ROOT, "MANIFEST.json"), "/root/.vp/MANIFEST.schema.json")
for p in sorted(glob.glob(os.path.join(ROOT, "evidence", "*.json"))):
    v(p, "/root/.vp/EVIDENCE.schema.json")
sys.exit(0 if ok else 1)
