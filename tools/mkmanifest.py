#!/usr/bin/env python3
"""Regenerates MANIFEST.json from the table below (kept here so that the manifest stays consistent)."""
import json, os, sys
ROOT = os.path.dirname(os.path.dirname(os.path.abspath(__file__)))

BASE_OFF = ("cd /repo && export GOFLAGS=-mod=mod GOPROXY=off && unset GOSUMDB GOTOOLCHAIN && "
            "go test -json -vet=off -count=1 -timeout 25m ./...")

CHECKS = {
 # id: (technique, level text, level note, design ref)
}

def load():
    import importlib.util
    p = os.path.join(ROOT, "tools", "manifest_table.json")
    return json.load(open(p))

def main():
    table = load()
    props = [json.loads(l)["id"] for l in open(os.path.join(ROOT, "properties.jsonl"))]
    checks, na = [], []
    for pid in props:
        t = table["checks"].get(pid)
        if t is None:
            na.append({"property_id": pid, "reason": table["not_applicable"].get(pid, "no check registered yet (work in progress); see DESIGN.md")})
            continue
        checks.append({
            "property_id": pid,
            "quick_cmd": f"./vcheck {pid} quick",
            "thorough_cmd": f"./vcheck {pid} thorough",
            "evidence_file": f"evidence/{pid}.json",
            "replay_cmd_template": f"./vcheck {pid} --replay {{path}}",
            "engine": "vcheck",
            "level_claimed": {"category": "exploration", "text": t["text"], "design_ref": t.get("design_ref", "DESIGN.md section 4 / " + pid)},
            "level_note": t["note"],
            "technique": t["technique"],
        })
    m = {
        "version": 1,
        "setup_cmd": "./setup.sh",
        "hooks": {
            "guard": "verif",
            "enable": "go build -tags verif (./vcheck builds /repo/cmd and the in-process worker with it on every invocation)",
            "baseline_off_cmd": BASE_OFF,
            "source_commits": table.get("hook_commits", []),
            "add_only": True,
        },
        "engines": [{"name": "vcheck", "path": "harness/", "serves_properties": [c["property_id"] for c in checks],
                     "kind_free_text": "Go harness: child-process runner with CPU-time rlimit, independent SMF decoder, music-theory oracle, reference tokenizer + Earley recogniser, exact-rational score model, race-detector builds; monitors judge recorded boundary events"}],
        "checks": checks,
        "notes": table.get("notes", ""),
        "not_applicable": na,
    }
    json.dump(m, open(os.path.join(ROOT, "MANIFEST.json"), "w"), indent=1)
    print("MANIFEST.json written:", len(checks), "checks,", len(na), "not_applicable")

main()
