#!/usr/bin/env python3
"""Prints one line per fix: commit in /repo, finding ids, owning property (from known_findings.json and git log)."""
import json, os, subprocess
root = os.path.dirname(os.path.dirname(os.path.abspath(__file__)))
k = json.load(open(os.path.join(root, "known_findings.json")))
log = subprocess.run(["git", "-C", "/repo", "log", "--format=%h %s", "7753239..HEAD"], capture_output=True, text=True).stdout.strip().split("\n")
by = {}
for e in k["findings"]:
    if e.get("commit"):
        by.setdefault(e["commit"], []).append((e["id"], e["property"]))
for l in reversed(log):
    h, subj = l.split(" ", 1)
    if not subj.startswith("fix:"):
        continue
    ids = ",".join(sorted({i for i, _ in by.get(h, [])})) or "?"
    props = sorted({p for _, p in by.get(h, [])})
    print(h, ids, props[0] if props else "C09")
