#!/usr/bin/env python3
"""Prints the list of seeded changes with the check that catches each (from seeded/*/meta.json)."""
import json, glob, os, re
rows = []
for d in sorted(glob.glob(os.path.join(os.path.dirname(os.path.dirname(os.path.abspath(__file__))), "seeded", "*"))):
    m = json.load(open(os.path.join(d, "meta.json")))
    out = m.get("check_result", {}).get("outcome", "")
    caught = re.findall(r"(C\d\d) quick -> caught", out)
    missed = re.findall(r"(C\d\d) quick -> MISSED", out)
    rows.append((os.path.basename(d), m.get("round", 1), ", ".join(caught) or "-", ", ".join(missed), (m.get("summary") or "")[:110]))
print("| seeded change | round | caught by (quick) | summary |")
print("|---|---|---|---|")
for r in rows:
    print(f"| {r[0]} | {r[1]} | {r[2]}{' (not by ' + r[3] + ')' if r[3] else ''} | {r[4]} |")
