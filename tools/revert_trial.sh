#!/bin/bash
# For every fix commit: revert it on a scratch worktree (/tmp/mut/C01../C14, worktrees of /repo at HEAD)
# and run the owning quick check; it must alarm. See DESIGN.md 6h.
cd /verif
mkdir -p /tmp/x; rm -f /tmp/x/lane_*.txt; python3 tools/fixlist.py > /tmp/x/fixlist.txt
i=0
while read h ids prop; do
  lane=$(( i % 14 + 1 )); i=$((i+1))
  echo "$h $ids $prop" >> /tmp/x/lane_$lane.txt
done < /tmp/x/fixlist.txt
for lane in $(seq 1 14); do
  wt=/tmp/mut/C$(printf %02d $lane)
  ( while read h ids prop; do
      cd $wt; git checkout -q -- .; git clean -fdq
      if ! git revert -n $h >/dev/null 2>&1; then git revert --abort >/dev/null 2>&1; git reset -q --hard; echo "REVERT $h $ids $prop -> does not revert cleanly"; continue; fi
      git reset -q
      if ! go build ./... >/dev/null 2>&1; then git checkout -q -- .; git clean -fdq; echo "REVERT $h $ids $prop -> reverted tree does not build"; continue; fi
      cd /verif
      tier=quick
      out=/tmp/x/revert_$h.log
      VERIF_REPO=$wt VERIF_OUT_DIR=/tmp/trymutant/out-revert-$h ./vcheck $prop $tier > $out 2>&1; rc=$?
      case $rc in
        1) echo "REVERT $h $ids $prop -> caught ($(grep -c '^VIOLATION' $out); $(grep -m1 'what:' $out | cut -c1-140))";;
        0) echo "REVERT $h $ids $prop -> MISSED";;
        *) echo "REVERT $h $ids $prop -> inconclusive rc=$rc ($(tail -1 $out | cut -c1-120))";;
      esac
      cd $wt; git checkout -q -- .; git clean -fdq
    done < /tmp/x/lane_$lane.txt ) > /tmp/x/revert_lane_$lane.log 2>&1 &
done
wait
cat /tmp/x/revert_lane_*.log
