#!/bin/bash
# usage: tools/screenmutant.sh <mutant dir> <scratch worktree> <tier> <ID>...
# Like trymutant.sh but on a scratch worktree (VERIF_REPO), so that several can run in parallel
# and /repo is never touched. Used for screening; confirmations are done on /repo with trymutant.sh.
set -u
D="$(readlink -f "$1")"; WT="$2"; TIER="$3"; shift 3
ROOT="$(cd "$(dirname "$0")/.." && pwd)"
cd "$WT" || exit 2
git checkout -q -- . ; git clean -fdq
git apply "$D/patch.diff" || { echo "patch does not apply"; exit 2; }
cd "$ROOT"
name="$(basename "$(dirname "$D")")-$(basename "$D")"
mkdir -p /tmp/trymutant
for id in "$@"; do
  out="/tmp/trymutant/$name-$id.log"
  VERIF_REPO="$WT" VERIF_OUT_DIR="/tmp/trymutant/out-$name" ./vcheck "$id" "$TIER" > "$out" 2>&1; rc=$?
  case $rc in
    1) echo "$name $id $TIER -> caught ($(grep -c '^VIOLATION' "$out"); $(grep -m1 'what:' "$out" | cut -c1-150))";;
    0) echo "$name $id $TIER -> MISSED";;
    *) echo "$name $id $TIER -> inconclusive rc=$rc ($(tail -1 "$out" | cut -c1-150))";;
  esac
done
git -C "$WT" checkout -q -- . ; git -C "$WT" clean -fdq
