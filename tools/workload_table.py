#!/usr/bin/env python3
"""Prints a table of what the latest run of every check covered (from evidence/*.json)."""
import json, glob, os
root = os.path.dirname(os.path.dirname(os.path.abspath(__file__)))
print("| id | tier | evaluations | distinct non-trivial | child processes | wall s | streams / extras |")
print("|---|---|---|---|---|---|---|")
for p in sorted(glob.glob(os.path.join(root, "evidence", "*.json"))):
    e = json.load(open(p)); c = e["coverage"]
    extras = [k for k in c if k not in ("evaluations","distinct_nontrivial","rule","samples","known_findings_hit","child_processes","wallclock_watchdog_hits","exhaustive") and not k.endswith("_count")]
    print(f"| {e['property_id']} | {e['tier']} | {c['evaluations']:,} | {c['distinct_nontrivial']:,} | {c.get('child_processes',0):,} | {e['wall_s']:.1f} | {', '.join(sorted(extras))[:160]} |")
