#!/bin/bash
# usage: tools/verifymutant.sh <mutant dir with patch.diff demo.sh> <scratch worktree>
# Confirms: patch applies, builds, existing tests pass, demo fails with it and passes without it.
set -u
D="$(readlink -f "$1")"; WT="$2"
export GOFLAGS=-mod=mod GOPROXY=off; unset GOSUMDB GOTOOLCHAIN
T=$(mktemp -d /tmp/vm-XXXXXX); trap 'rm -rf "$T"' EXIT
cd "$WT" || exit 2
git checkout -q -- . ; git clean -fdq
go build -o $T/clean-crd ./cmd || { echo "clean build failed"; exit 2; }
git apply "$D/patch.diff" || { echo "RESULT patch does not apply"; exit 1; }
if ! go build ./... 2>$T/build.log; then echo "RESULT does not compile"; git checkout -q -- .; exit 1; fi
if ! go test -vet=off -count=1 ./... >$T/test.log 2>&1; then echo "RESULT existing tests FAIL with the change"; grep -E "^(FAIL|---)" $T/test.log | head -5; git checkout -q -- .; exit 1; fi
go build -o $T/mut-crd ./cmd
git checkout -q -- . ; git clean -fdq
chmod +x "$D/demo.sh"
( cd "$D" && timeout 300 ./demo.sh $T/mut-crd >$T/demo-mut.log 2>&1 ); m=$?
( cd "$D" && timeout 300 ./demo.sh $T/clean-crd >$T/demo-clean.log 2>&1 ); c=$?
echo "RESULT tests pass; demo on mutant rc=$m, on clean rc=$c"
[ "$m" = 1 ] && [ "$c" = 0 ]
