#!/bin/bash
# usage: tools/trymutant.sh <patch.diff> <tier> <ID> [<ID>...]
# Applies a seeded change to /repo, runs the named checks, and always restores /repo.
# Prints one line per check: <ID> <tier> -> caught | MISSED | inconclusive
set -u
PATCH="$(readlink -f "$1")"; TIER="$2"; shift 2
ROOT="$(cd "$(dirname "$0")/.." && pwd)"
cd /repo || exit 2
if [ -n "$(git status --porcelain)" ]; then echo "repo not clean"; exit 2; fi
trap 'git -C /repo checkout -- . ; git -C /repo clean -fdq' EXIT
git apply "$PATCH" || { echo "patch does not apply"; exit 2; }
cd "$ROOT"
mkdir -p /tmp/trymutant
export VERIF_OUT_DIR=/tmp/trymutant/out
for id in "$@"; do
  out="/tmp/trymutant/$(basename "$(dirname "$PATCH")")-$id.log"
  ./vcheck "$id" "$TIER" > "$out" 2>&1; rc=$?
  case $rc in
    1) echo "$id $TIER -> caught ($(grep -c '^VIOLATION' "$out") violations; first: $(grep -m1 'what:' "$out" | cut -c1-160))";;
    0) echo "$id $TIER -> MISSED";;
    *) echo "$id $TIER -> inconclusive rc=$rc ($(tail -1 "$out" | cut -c1-160))";;
  esac
done
